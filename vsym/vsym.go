//go:build !verifreplay

// Package vsym provides the nondeterminism primitives of the gosym engine.
// Under the engine every function below is intercepted; the bodies only exist so that the package
// type-checks. It is injected into the repository by a build overlay (never written to /repo).
package vsym

import "github.com/cronokirby/saferith"

// Int returns an arbitrary int in [lo, hi].
func Int(name string, lo, hi int) int { return lo }

// Uint64, Uint32, Uint16, Byte, Bool return arbitrary values of their type.
func Uint64(name string) uint64 { return 0 }
func Uint32(name string) uint32 { return 0 }
func Uint16(name string) uint16 { return 0 }
func Byte(name string) byte     { return 0 }
func Bool(name string) bool     { return false }

// Bytes returns an arbitrary byte slice with minLen <= len <= maxLen (length is case-split, content symbolic).
func Bytes(name string, minLen, maxLen int) []byte { return make([]byte, minLen) }

// String returns an arbitrary string with minLen <= len <= maxLen.
func String(name string, minLen, maxLen int) string { return "" }

// Assume restricts the explored inputs to those satisfying c.
func Assume(c bool) {}

// Assert states an obligation: the solver must show c for all inputs on this path.
func Assert(c bool, label string) {}

// Reach records that this point is reachable (anti-vacuity witness).
func Reach(label string) {}

// Choose returns a concrete value in [0, n) chosen nondeterministically (explored exhaustively by forking).
func Choose(name string, n int) int { return 0 }

// Concrete forks on the value of x, which must lie in [lo, hi].
func Concrete(x, lo, hi int) int { return x }

// Formula-level connectives (no forking).
func And(a, b bool) bool     { return a && b }
func Or(a, b bool) bool      { return a || b }
func Not(a bool) bool        { return !a }
func Implies(a, b bool) bool { return !a || b }

// BytesEq is a fork-free equality of byte slices (nil and empty are equal).
func BytesEq(a, b []byte) bool { return string(a) == string(b) }

// StrEq is a fork-free equality of strings.
func StrEq(a, b string) bool { return a == b }

// ExpectPanic runs f and reports whether it panicked.
func ExpectPanic(f func()) (panicked bool) {
	defer func() {
		if recover() != nil {
			panicked = true
		}
	}()
	f()
	return false
}

// StuckRand switches the model of the system random source to "returns the same bytes on every call".
func StuckRand(on bool) {}

// Note attaches a remark to the current path in the result file.
func Note(msg string) {}

// Param returns an engine parameter (bounds) with a default.
func Param(name string, def int) int { return def }

// Havoc fills *ptr (any pointer) with an arbitrary value of its type (engine only).
func Havoc(ptr interface{}, name string) {}

// Consumed declares that a concurrent consumer reads channel ch (as the user of Handler.Listen does): sends on the full
// channel hand the oldest element to that consumer instead of blocking (engine); natively a goroutine drains it.
func Consumed(ch interface{}) {}

// HavocInto overwrites *ptr (a pointer to a pre-shaped message/content struct) with what a decoder could leave there:
// exported fields arbitrary, unexported fields kept, pre-shaped interface fields keep their dynamic type, pre-shaped
// pointers are kept when the key is absent (engine only).
func HavocInto(ptr interface{}, name string) {}

// Snapshot returns an opaque deep snapshot of x usable with Same (engine only).
func Snapshot(x interface{}) interface{} { return nil }

// Same compares two snapshots structurally and returns a formula.
func Same(a, b interface{}) bool { return true }

// Stop ends the current path silently (used after the interesting part of a harness).
func Stop() {}

// MergeBool evaluates a pure closure on all of its paths and returns the merged result as one formula
// (avoids forking the caller on every branch inside validation loops).
func MergeBool(f func() bool) bool { return f() }

// Watch records every later access to the fields of *ptr (a struct with a sync.Mutex field) for AssertLockset.
func Watch(ptr interface{}) {}

// Op names the API operation whose accesses are being recorded ("" stops recording).
func Op(name string) {}

// AssertLockset states: no field is accessed by two operations, at least once written, without a common lock.
func AssertLockset(label string) {}

// Native reports whether the harness runs natively (replay) rather than under the engine.
func Native() bool { return false }

// CborFor returns the bytes of an arbitrary CBOR document for the type of *dst (engine: a token that the cbor model
// decodes as "anything a decoder can produce in *dst"; native replay: real CBOR bytes built from the solver's model).
func CborFor(dst interface{}, name string) []byte { return nil }

// SymNat returns an arbitrary natural number below 2^bits (a mathematical integer for the solver).
func SymNat(name string, bits int) *saferith.Nat { return new(saferith.Nat) }

// SymInt returns an arbitrary integer with |v| < 2^bits.
func SymInt(name string, bits int) *saferith.Int { return new(saferith.Int) }

// SelectBytes returns a if c else b, byte-wise, without forking (engine: ite terms).
func SelectBytes(c bool, a, b []byte) []byte {
	if c {
		return a
	}
	return b
}
