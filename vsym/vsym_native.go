//go:build verifreplay

// Native build of vsym: values come from the solver's model (JSON file named by $VSYM_MODEL),
// so the identical harness function is the replay test against the real code.
package vsym

import (
	crand "crypto/rand"
	"encoding/json"
	"fmt"
	"math/big"
	"os"
)

var (
	model  = map[string]string{}
	params = map[string]int{}
	names  = map[string]int{}
	loaded bool
	// Failures collects failed assertions during a replay.
	Failures []string
	randSeq  int
	stuck    bool
)

type replayFile struct {
	Model  map[string]string `json:"model"`
	Params map[string]int    `json:"params"`
}

func load() {
	if loaded {
		return
	}
	loaded = true
	if p := os.Getenv("VSYM_MODEL"); p != "" {
		b, err := os.ReadFile(p)
		if err != nil {
			panic(err)
		}
		var rf replayFile
		if err := json.Unmarshal(b, &rf); err != nil {
			panic(err)
		}
		if rf.Model != nil {
			model = rf.Model
		}
		if rf.Params != nil {
			params = rf.Params
		}
	}
	crand.Reader = modelReader{}
}

type modelReader struct{}

func (modelReader) Read(p []byte) (int, error) {
	k := randSeq
	if !stuck {
		randSeq++
	}
	for i := range p {
		var key string
		if stuck {
			key = fmt.Sprintf("stuckrand_%d", i)
		} else {
			key = fmt.Sprintf("rand%d_%d", k, i)
		}
		if v, ok := model[key]; ok {
			n, _ := new(big.Int).SetString(v, 10)
			p[i] = byte(n.Uint64())
		} else {
			p[i] = byte(0x5a + 7*i + 13*k) // unconstrained by the model: any value will do
		}
	}
	return len(p), nil
}

func uniq(base string) string {
	names[base]++
	if n := names[base]; n > 1 {
		return fmt.Sprintf("%s#%d", base, n)
	}
	return base
}

func val(name string) *big.Int {
	load()
	if v, ok := model[name]; ok {
		n, ok := new(big.Int).SetString(v, 10)
		if ok {
			return n
		}
	}
	return new(big.Int)
}

func Int(name string, lo, hi int) int {
	v := val(uniq(name))
	r := int(int64(v.Uint64()))
	if _, ok := model[name]; !ok && (r < lo || r > hi) {
		return lo
	}
	return r
}
func Uint64(name string) uint64 { return val(uniq(name)).Uint64() }
func Uint32(name string) uint32 { return uint32(val(uniq(name)).Uint64()) }
func Uint16(name string) uint16 { return uint16(val(uniq(name)).Uint64()) }
func Byte(name string) byte     { return byte(val(uniq(name)).Uint64()) }
func Bool(name string) bool     { return val(uniq(name)).Sign() != 0 }

func bytesOf(name string, minLen, maxLen int) []byte {
	load()
	n := minLen
	if minLen != maxLen {
		n = int(val(uniq(name + ".len")).Int64())
	}
	base := uniq(name)
	out := make([]byte, n)
	for i := range out {
		out[i] = byte(val(fmt.Sprintf("%s[%d]", base, i)).Uint64())
	}
	return out
}

func Bytes(name string, minLen, maxLen int) []byte { return bytesOf(name, minLen, maxLen) }
func String(name string, minLen, maxLen int) string {
	return string(bytesOf(name, minLen, maxLen))
}

func Assume(c bool) {
	if !c {
		fmt.Println("VSYM-ASSUME-FAILED (model does not satisfy an assumption natively)")
		panic("VSYM-ASSUME-FAILED")
	}
}

func Assert(c bool, label string) {
	if !c {
		Failures = append(Failures, label)
		fmt.Println("VSYM-ASSERT-FAILED:", label)
	}
}

func Reach(label string) {}

func Choose(name string, n int) int { return int(val(uniq(name)).Int64()) }

func Concrete(x, lo, hi int) int { return x }

func And(a, b bool) bool     { return a && b }
func Or(a, b bool) bool      { return a || b }
func Not(a bool) bool        { return !a }
func Implies(a, b bool) bool { return !a || b }

func BytesEq(a, b []byte) bool { return string(a) == string(b) }
func StrEq(a, b string) bool   { return a == b }

func ExpectPanic(f func()) (panicked bool) {
	defer func() {
		if recover() != nil {
			panicked = true
		}
	}()
	f()
	return false
}

func StuckRand(on bool) { load(); stuck = on }
func Note(msg string)   {}
func Param(name string, def int) int {
	load()
	if v, ok := params[name]; ok {
		return v
	}
	return def
}
func Havoc(ptr interface{}, name string)     { panic("vsym.Havoc is engine-only; this harness needs a dedicated replay") }
func Snapshot(x interface{}) interface{}     { panic("vsym.Snapshot is engine-only") }
func Same(a, b interface{}) bool             { panic("vsym.Same is engine-only") }
func Stop()                                  { panic("VSYM-STOP") }
func MergeBool(f func() bool) bool           { return f() }

// RunReplay runs a harness natively and reports whether the violation reproduced.
func RunReplay(name string, h func()) (reproduced bool) {
	load()
	defer func() {
		if r := recover(); r != nil {
			s := fmt.Sprint(r)
			if s == "VSYM-STOP" {
				reproduced = len(Failures) > 0
			} else if s == "VSYM-ASSUME-FAILED" {
				reproduced = false
			} else {
				fmt.Println("REPLAY-PANIC:", s)
				reproduced = true
			}
		}
		if reproduced {
			fmt.Println("REPLAY-REPRODUCED", name, Failures)
		} else {
			fmt.Println("REPLAY-NOT-REPRODUCED", name)
		}
	}()
	h()
	return len(Failures) > 0
}

func Watch(ptr interface{})      {}
func Op(name string)             {}
func AssertLockset(label string) {}

func Native() bool { return true }
