//go:build verifreplay

// Native build of vsym: values come from the solver's model (JSON file named by $VSYM_MODEL),
// so the identical harness function is the replay test against the real code.
package vsym

import (
	crand "crypto/rand"
	"encoding"
	"encoding/json"
	"reflect"
	"sort"
	"strings"
	"unsafe"

	"github.com/cronokirby/saferith"
	"github.com/fxamacker/cbor/v2"
	"fmt"
	"math/big"
	"os"
)

var (
	model  = map[string]string{}
	params = map[string]int{}
	names  = map[string]int{}
	loaded bool
	// Failures collects failed assertions during a replay.
	Failures []string
	randSeq  int
	stuck    bool
)

type replayFile struct {
	Model  map[string]string `json:"model"`
	Params map[string]int    `json:"params"`
}

func load() {
	if loaded {
		return
	}
	loaded = true
	if p := os.Getenv("VSYM_MODEL"); p != "" {
		b, err := os.ReadFile(p)
		if err != nil {
			panic(err)
		}
		var rf replayFile
		if err := json.Unmarshal(b, &rf); err != nil {
			panic(err)
		}
		if rf.Model != nil {
			model = rf.Model
		}
		if rf.Params != nil {
			params = rf.Params
		}
	}
	crand.Reader = modelReader{}
}

type modelReader struct{}

func (modelReader) Read(p []byte) (int, error) {
	k := randSeq
	if !stuck {
		randSeq++
	}
	for i := range p {
		var key string
		if stuck {
			key = fmt.Sprintf("stuckrand_%d", i)
		} else {
			key = fmt.Sprintf("rand%d_%d", k, i)
		}
		if v, ok := model[key]; ok {
			n, _ := new(big.Int).SetString(v, 10)
			p[i] = byte(n.Uint64())
		} else {
			p[i] = byte(0x5a + 7*i + 13*k) // unconstrained by the model: any value will do
		}
	}
	return len(p), nil
}

func uniq(base string) string {
	names[base]++
	if n := names[base]; n > 1 {
		return fmt.Sprintf("%s#%d", base, n)
	}
	return base
}

func val(name string) *big.Int {
	load()
	if v, ok := model[name]; ok {
		n, ok := new(big.Int).SetString(v, 10)
		if ok {
			return n
		}
	}
	return new(big.Int)
}

func Int(name string, lo, hi int) int {
	v := val(uniq(name))
	r := int(int64(v.Uint64()))
	if _, ok := model[name]; !ok && (r < lo || r > hi) {
		return lo
	}
	return r
}
func Uint64(name string) uint64 { return val(uniq(name)).Uint64() }
func Uint32(name string) uint32 { return uint32(val(uniq(name)).Uint64()) }
func Uint16(name string) uint16 { return uint16(val(uniq(name)).Uint64()) }
func Byte(name string) byte     { return byte(val(uniq(name)).Uint64()) }
func Bool(name string) bool     { return val(uniq(name)).Sign() != 0 }

func bytesOf(name string, minLen, maxLen int) []byte {
	load()
	n := minLen
	if minLen != maxLen {
		n = int(val(uniq(name + ".len")).Int64())
	}
	base := uniq(name)
	out := make([]byte, n)
	for i := range out {
		out[i] = byte(val(fmt.Sprintf("%s[%d]", base, i)).Uint64())
	}
	if os.Getenv("VSYM_GENERIC") != "" {
		// field-mode counterexamples are identities that fail for generic values: bytes the solver left at zero are
		// replaced by arbitrary non-zero ones
		allZero := true
		for _, b := range out {
			if b != 0 {
				allZero = false
			}
		}
		if allZero {
			for i := range out {
				out[i] = byte(17 + 31*i + 7*len(base) + int(base[0]))
				if out[i] == 0 {
					out[i] = 1
				}
			}
			if len(out) == 32 {
				out[0] &= 0x7f // keep 32-byte values below the group order
			}
		}
	}
	return out
}

func Bytes(name string, minLen, maxLen int) []byte { return bytesOf(name, minLen, maxLen) }
func String(name string, minLen, maxLen int) string {
	return string(bytesOf(name, minLen, maxLen))
}

func Assume(c bool) {
	if !c {
		fmt.Println("VSYM-ASSUME-FAILED (model does not satisfy an assumption natively)")
		panic("VSYM-ASSUME-FAILED")
	}
}

func Assert(c bool, label string) {
	if !c {
		Failures = append(Failures, label)
		fmt.Println("VSYM-ASSERT-FAILED:", label)
	}
}

func Reach(label string) {}

func Choose(name string, n int) int { return int(val(uniq(name)).Int64()) }

func Concrete(x, lo, hi int) int { return x }

func And(a, b bool) bool     { return a && b }
func Or(a, b bool) bool      { return a || b }
func Not(a bool) bool        { return !a }
func Implies(a, b bool) bool { return !a || b }

func BytesEq(a, b []byte) bool { return string(a) == string(b) }
func StrEq(a, b string) bool   { return a == b }

func ExpectPanic(f func()) (panicked bool) {
	defer func() {
		if recover() != nil {
			panicked = true
		}
	}()
	f()
	return false
}

func StuckRand(on bool) { load(); stuck = on }
func Note(msg string)   {}
func Param(name string, def int) int {
	load()
	if v, ok := params[name]; ok {
		return v
	}
	return def
}
func Havoc(ptr interface{}, name string)     { panic("vsym.Havoc is engine-only; this harness needs a dedicated replay") }
// Consumed (native): start a goroutine that drains the channel.
func Consumed(ch interface{}) {
	v := reflect.ValueOf(ch)
	if v.Kind() != reflect.Chan {
		return
	}
	go func() {
		for {
			if _, ok := v.Recv(); !ok {
				return
			}
		}
	}()
}

func HavocInto(ptr interface{}, name string) { panic("vsym.HavocInto is engine-only; this harness needs a dedicated replay") }
// Snapshot (native): deterministic deep dump following pointers; unexported fields included; map keys sorted;
// error texts, function values, mutex state and channel contents are not compared (as in the engine).
func Snapshot(x interface{}) interface{} {
	var sb strings.Builder
	dump(&sb, reflect.ValueOf(x), map[uintptr]int{}, 0)
	return sb.String()
}
func Same(a, b interface{}) bool { return a.(string) == b.(string) }

var errorIface = reflect.TypeOf((*error)(nil)).Elem()

func dump(sb *strings.Builder, v reflect.Value, seen map[uintptr]int, depth int) {
	if !v.IsValid() {
		sb.WriteString("nil")
		return
	}
	if depth > 60 {
		sb.WriteString("deep")
		return
	}
	if v.Kind() != reflect.Interface && v.Type().Implements(errorIface) && v.Kind() == reflect.Ptr && !v.IsNil() {
		sb.WriteString("error")
		return
	}
	switch v.Type().String() {
	case "sync.Mutex", "sync.RWMutex":
		sb.WriteString("mutex")
		return
	}
	switch v.Kind() {
	case reflect.Bool:
		fmt.Fprint(sb, v.Bool())
	case reflect.Int, reflect.Int8, reflect.Int16, reflect.Int32, reflect.Int64:
		fmt.Fprint(sb, v.Int())
	case reflect.Uint, reflect.Uint8, reflect.Uint16, reflect.Uint32, reflect.Uint64, reflect.Uintptr:
		fmt.Fprint(sb, v.Uint())
	case reflect.String:
		fmt.Fprintf(sb, "%q", v.String())
	case reflect.Ptr:
		if v.IsNil() {
			sb.WriteString("nil")
			return
		}
		if id, ok := seen[v.Pointer()]; ok {
			fmt.Fprintf(sb, "back%d", id)
			return
		}
		seen[v.Pointer()] = len(seen)
		sb.WriteString("&")
		dump(sb, v.Elem(), seen, depth+1)
	case reflect.Interface:
		if v.IsNil() {
			sb.WriteString("nil")
			return
		}
		if v.Elem().Type().Implements(errorIface) {
			sb.WriteString("error")
			return
		}
		sb.WriteString("(" + v.Elem().Type().String() + ")")
		dump(sb, v.Elem(), seen, depth+1)
	case reflect.Struct:
		sb.WriteString("{")
		for i := 0; i < v.NumField(); i++ {
			f := v.Field(i)
			if !f.CanInterface() && f.CanAddr() {
				f = reflect.NewAt(f.Type(), unsafe.Pointer(f.UnsafeAddr())).Elem()
			}
			dump(sb, f, seen, depth+1)
			sb.WriteString(",")
		}
		sb.WriteString("}")
	case reflect.Slice:
		if v.IsNil() {
			sb.WriteString("nil")
			return
		}
		fallthrough
	case reflect.Array:
		sb.WriteString("[")
		for i := 0; i < v.Len(); i++ {
			dump(sb, v.Index(i), seen, depth+1)
			sb.WriteString(",")
		}
		sb.WriteString("]")
	case reflect.Map:
		if v.IsNil() {
			sb.WriteString("nil")
			return
		}
		keys := v.MapKeys()
		ks := make([]string, len(keys))
		idx := map[string]reflect.Value{}
		for i, k := range keys {
			var kb strings.Builder
			dump(&kb, k, seen, depth+1)
			ks[i] = kb.String()
			idx[ks[i]] = k
		}
		sort.Strings(ks)
		sb.WriteString("map{")
		for _, k := range ks {
			sb.WriteString(k + ":")
			dump(sb, v.MapIndex(idx[k]), seen, depth+1)
			sb.WriteString(",")
		}
		sb.WriteString("}")
	case reflect.Chan:
		if v.IsNil() {
			sb.WriteString("nil")
		} else {
			sb.WriteString("chan")
		}
	case reflect.Func:
		sb.WriteString("func")
	default:
		fmt.Fprintf(sb, "<%s>", v.Kind())
	}
}
func Stop()                                  { panic("VSYM-STOP") }
func MergeBool(f func() bool) bool           { return f() }

// RunReplay runs a harness natively and reports whether the violation reproduced.
func RunReplay(name string, h func()) (reproduced bool) {
	load()
	defer func() {
		if r := recover(); r != nil {
			s := fmt.Sprint(r)
			if s == "VSYM-STOP" {
				reproduced = len(Failures) > 0
			} else if s == "VSYM-ASSUME-FAILED" {
				reproduced = false
			} else {
				fmt.Println("REPLAY-PANIC:", s)
				reproduced = true
			}
		}
		if reproduced {
			fmt.Println("REPLAY-REPRODUCED", name, Failures)
		} else {
			fmt.Println("REPLAY-NOT-REPRODUCED", name)
		}
	}()
	h()
	return len(Failures) > 0
}

func Watch(ptr interface{})      {}
func Op(name string)             {}
func AssertLockset(label string) {}

func Native() bool { return true }

// ---------------------------------------------------------------- CborFor (native mirror of the engine's havoc decoder)

func modelInt(name string, def int) int {
	load()
	if v, ok := model[name]; ok {
		n, ok := new(big.Int).SetString(v, 10)
		if ok {
			return int(n.Int64())
		}
	}
	return def
}

func modelBig(name string) *big.Int {
	load()
	if v, ok := model[name]; ok {
		n, ok := new(big.Int).SetString(v, 10)
		if ok {
			return n
		}
	}
	return new(big.Int)
}

func modelBytes(name string, n int) []byte {
	out := make([]byte, n)
	for i := range out {
		out[i] = byte(modelInt(fmt.Sprintf("%s[%d]", name, i), 0))
	}
	return out
}

var buType = reflect.TypeOf((*encoding.BinaryUnmarshaler)(nil)).Elem()

func isBU(t reflect.Type) bool {
	return t.Kind() != reflect.Interface && reflect.PtrTo(t).Implements(buType)
}

func isByteSlice(t reflect.Type) bool {
	return t.Kind() == reflect.Slice && t.Elem().Kind() == reflect.Uint8
}

func lensFor(t reflect.Type) []int {
	switch t.String() {
	case "curve.Secp256k1Scalar":
		return []int{32, 0}
	case "curve.Secp256k1Point":
		return []int{33, 0}
	case "polynomial.Exponent":
		return []int{5, 3, 0}
	case "hash.Commitment":
		return []int{64, 0, 1}
	case "hash.Decommitment", "types.RID":
		return []int{32, 0, 1}
	}
	if isByteSlice(t) {
		return []int{0, 1, 32}
	}
	return []int{0, 1, 2}
}

func chooseFrom(name string, vals []int) int {
	if len(vals) == 1 {
		return vals[0]
	}
	return modelInt(name, vals[0])
}

type absentT struct{}

var absent = absentT{}

// buildInto mirrors havocDecodeInto: returns the Go value to be CBOR-encoded for a destination of type t.
func havocBytes(name string, n int) []byte {
	k := Param("symbytes", 6)
	out := modelBytes(name, n)
	for i := k; i < n; i++ {
		out[i] = 0xA5
	}
	return out
}

// exponentBytes mirrors the engine's special framing for polynomial.Exponent.
func exponentBytes(name string) []byte {
	switch chooseFrom(name+".xvar", []int{0, 1, 2}) {
	case 1:
		return modelBytes(name+".short", 3)
	case 2:
		return []byte{}
	}
	size := modelBytes(name+".size", 4)
	pre := int(size[0])<<24 | int(size[1])<<16 | int(size[2])<<8 | int(size[3])
	raw := name + ".raw"
	doc := map[string]interface{}{"IsConstant": modelInt(raw+".IsConstant", 0) != 0}
	if chooseFrom(raw+".Coefficients.mode", []int{1, 0}) == 1 {
		n := chooseFrom(raw+".Coefficients.len", []int{0, 1, Param("havoclen", 2)})
		arr := make([]interface{}, n)
		for i := range arr {
			en := fmt.Sprintf("%s.Coefficients[%d]", raw, i)
			if i < pre { // pre-shaped point
				if chooseFrom(en+".mode", []int{1, 0}) == 1 {
					l := chooseFrom(en+".len", []int{33, 0})
					arr[i] = havocBytes(en, l)
				} else {
					arr[i] = nil // "absent" inside an array: encode null (keeps the element untouched in cbor)
				}
			} else if chooseFrom(en+".mode", []int{0, 1}) == 1 {
				arr[i] = []byte{1}
			}
		}
		doc["Coefficients"] = arr
	}
	b, err := cbor.Marshal(doc)
	if err != nil {
		panic(err)
	}
	return append(size, b...)
}

func buildInto(t reflect.Type, cur reflect.Value, name string) interface{} {
	if isBU(t) {
		if t.String() == "polynomial.Exponent" {
			return exponentBytes(name)
		}
		n := chooseFrom(name+".len", lensFor(t))
		return havocBytes(name, n)
	}
	if t.String() == "big.Int" {
		return modelBig(name)
	}
	switch t.Kind() {
	case reflect.Int, reflect.Int8, reflect.Int16, reflect.Int32, reflect.Int64:
		v := modelBig(name)
		bits := uint(t.Bits())
		if v.Bit(int(bits)-1) == 1 {
			v = new(big.Int).Sub(v, new(big.Int).Lsh(big.NewInt(1), bits))
		}
		return v.Int64()
	case reflect.Uint, reflect.Uint8, reflect.Uint16, reflect.Uint32, reflect.Uint64, reflect.Uintptr:
		return modelBig(name).Uint64()
	case reflect.Bool:
		return modelInt(name, 0) != 0
	case reflect.String:
		n := chooseFrom(name+".len", []int{0, 1})
		return string(modelBytes(name, n))
	case reflect.Struct:
		m := map[string]interface{}{}
		for i := 0; i < t.NumField(); i++ {
			f := t.Field(i)
			if f.PkgPath != "" {
				continue
			}
			if f.Type.Kind() == reflect.Struct && f.Type.NumField() == 0 {
				continue
			}
			var fv reflect.Value
			if cur.IsValid() {
				fv = cur.Field(i)
			}
			v := buildField(f.Type, fv, name+"."+f.Name)
			if _, isAbsent := v.(absentT); !isAbsent {
				m[f.Name] = v
			}
		}
		return m
	case reflect.Array:
		out := make([]interface{}, t.Len())
		for i := range out {
			var ev reflect.Value
			if cur.IsValid() {
				ev = cur.Index(i)
			}
			v := buildField(t.Elem(), ev, fmt.Sprintf("%s[%d]", name, i))
			if _, isAbsent := v.(absentT); isAbsent {
				v = nil
			}
			out[i] = v
		}
		return out
	case reflect.Slice:
		if isByteSlice(t) {
			n := chooseFrom(name+".len", lensFor(t))
			return havocBytes(name, n)
		}
		n := chooseFrom(name+".len", []int{0, 1, Param("havoclen", 2)})
		out := make([]interface{}, n)
		for i := range out {
			v := buildField(t.Elem(), reflect.Value{}, fmt.Sprintf("%s[%d]", name, i))
			if _, isAbsent := v.(absentT); isAbsent {
				v = nil
			}
			out[i] = v
		}
		return out
	case reflect.Map:
		n := chooseFrom(name+".len", []int{0, 1, 2})
		keys := []string{"a", "b", "zz", ""}
		m := map[string]interface{}{}
		for i := 0; i < n; i++ {
			ki := chooseFrom(fmt.Sprintf("%s.key%d", name, i), []int{0, 1, 2, 3})
			v := buildField(t.Elem(), reflect.Value{}, fmt.Sprintf("%s.val%d", name, i))
			if _, isAbsent := v.(absentT); isAbsent {
				v = nil
			}
			m[keys[ki]] = v
		}
		return m
	}
	panic("vsym.CborFor: unsupported type " + t.String())
}

func buildField(t reflect.Type, cur reflect.Value, name string) interface{} {
	switch t.Kind() {
	case reflect.Ptr:
		modes := []int{0, 1}
		pre := cur.IsValid() && !cur.IsNil()
		if pre {
			modes = []int{1, 0, 2}
		}
		switch chooseFrom(name+".mode", modes) {
		case 0:
			return absent
		case 2:
			return nil
		}
		var pv reflect.Value
		if pre {
			pv = cur.Elem()
		}
		return buildInto(t.Elem(), pv, name)
	case reflect.Interface:
		if !cur.IsValid() || cur.IsNil() {
			if chooseFrom(name+".mode", []int{0, 1}) == 1 {
				return []byte{1}
			}
			return absent
		}
		dyn := cur.Elem()
		if dyn.Kind() != reflect.Ptr || dyn.IsNil() {
			return absent
		}
		if chooseFrom(name+".mode", []int{1, 0}) == 0 {
			return absent
		}
		return buildInto(dyn.Type().Elem(), dyn.Elem(), name)
	case reflect.Slice, reflect.Map:
		if chooseFrom(name+".mode", []int{1, 0}) == 0 {
			return absent
		}
	}
	return buildInto(t, cur, name)
}

func CborFor(dst interface{}, name string) []byte {
	load()
	v := reflect.ValueOf(dst)
	if v.Kind() != reflect.Ptr || v.IsNil() {
		panic("vsym.CborFor needs a non-nil pointer")
	}
	doc := buildInto(v.Type().Elem(), v.Elem(), name)
	b, err := cbor.Marshal(doc)
	if err != nil {
		panic(err)
	}
	return b
}

func SymNat(name string, bits int) *saferith.Nat {
	return new(saferith.Nat).SetBig(new(big.Int).Abs(val(uniq(name))), bits)
}

func SymInt(name string, bits int) *saferith.Int {
	return new(saferith.Int).SetBig(val(uniq(name)), bits)
}

func SelectBytes(c bool, a, b []byte) []byte {
	if c {
		return a
	}
	return b
}
