package main

// havocDecode: the content a CBOR decoder can produce in a destination of a given Go type, as decisions and
// symbolic values with deterministic names. The native vsym.CborFor mirrors the naming and builds real CBOR bytes
// from the solver's model, so that every counterexample found through this model is replayed against the real
// decoder and the real code.

import (
	"fmt"
	"go/types"
)

type havocTok struct {
	name string
	b    []*Term
}

func (in *Interp) chooseFrom(name string, vals []int) int {
	if len(vals) == 1 {
		return vals[0]
	}
	v := in.freshVar(name, BV(64))
	conds := make([]*Term, len(vals))
	for i, x := range vals {
		conds[i] = Eq(v, i64(int64(x)))
	}
	in.assume(Or(conds...))
	return vals[in.choose(conds)]
}

func (in *Interp) isBU(t types.Type) bool {
	if _, ok := t.Underlying().(*types.Interface); ok {
		return false
	}
	return in.hasMethod(types.NewPointer(t), "UnmarshalBinary")
}

type decodeFail struct{ why string }

// havocBytes: the first "symbytes" bytes are symbolic, the rest fixed (0xA5): keeps zero-scans and comparisons
// over long strings from forking per byte (stated bound).
func (in *Interp) havocBytes(name string, n int) []*Term {
	k := in.param("symbytes", 6)
	if n <= k {
		return in.freshBytes(name, n)
	}
	out := in.freshBytes(name, k)
	for i := k; i < n; i++ {
		out = append(out, BVConst64(0xA5, 8))
	}
	return out
}

func isByteSlice(t types.Type) bool {
	s, ok := t.Underlying().(*types.Slice)
	if !ok {
		return false
	}
	w, _, ok := intWidth(s.Elem())
	return ok && w == 8
}

func (in *Interp) lensFor(t types.Type) []int {
	k := typeKey(t)
	switch {
	case k == repoMod+"/pkg/math/curve.Secp256k1Scalar":
		return []int{32, 0}
	case k == repoMod+"/pkg/math/curve.Secp256k1Point":
		return []int{33, 0}
	case k == repoMod+"/pkg/math/polynomial.Exponent":
		return []int{5, 3, 0}
	case k == repoMod+"/pkg/hash.Commitment":
		return []int{64, 0, 1}
	case k == repoMod+"/pkg/hash.Decommitment", k == repoMod+"/internal/types.RID":
		return []int{32, 0, 1}
	}
	if isByteSlice(t) {
		return []int{0, 1, 32}
	}
	return []int{0, 1, 2}
}

// havocDecodeInto overwrites *dst (of type t) with decoder-producible content. Panics with decodeFail when a
// field-level decoder reports an error.
func (in *Interp) havocDecodeInto(dst PtrV, t types.Type, name string, depth int) {
	if depth > 10 {
		in.fail("havocDecode: too deep at %s", name)
	}
	if a, ok := t.(*types.Alias); ok {
		t = types.Unalias(a)
	}
	// types with their own binary decoder: arbitrary byte string through the real UnmarshalBinary
	if in.isBU(t) {
		var bs []*Term
		if typeKey(t) == repoMod+"/pkg/math/polynomial.Exponent" {
			// framing of Exponent.MarshalBinary: u32 count || CBOR(rawExponentData); or a truncated buffer
			switch in.chooseFrom(name+".xvar", []int{0, 1, 2}) {
			case 0:
				bs = in.freshBytes(name+".size", 4)
				tok := make([]*Term, cborTokenLen)
				for i := range tok {
					tok[i] = Var(fmt.Sprintf("%s.raw.tok[%d]", name, i), BV(8))
				}
				toks, _ := in.misc["havocToks"].(map[string]*havocTok)
				if toks == nil {
					toks = map[string]*havocTok{}
					in.misc["havocToks"] = toks
				}
				toks[tokKey(tok)] = &havocTok{name: name + ".raw", b: tok}
				bs = append(bs, tok...)
			case 1:
				bs = in.freshBytes(name+".short", 3)
			case 2:
			}
		} else {
			n := in.chooseFrom(name+".len", in.lensFor(t))
			bs = in.havocBytes(name, n)
		}
		res := in.callMethod(types.NewPointer(t), dst, "UnmarshalBinary", in.byteSlice(bs))
		if !isNilValue(res) {
			panic(decodeFail{name + ": UnmarshalBinary returned an error"})
		}
		return
	}
	if typeKey(t) == "math/big.Int" {
		v := in.freshVar(name, IntSort)
		lim := pow2(in.param("bigbits", 300))
		in.assume(And(Lt(Neg(lim), v), Lt(v, lim)))
		in.store(dst, symNum(v, in.param("bigbits", 300)))
		return
	}
	switch u := t.Underlying().(type) {
	case *types.Basic:
		if w, _, ok := intWidth(u); ok {
			in.store(dst, in.freshVar(name, BV(w)))
			return
		}
		if u.Info()&types.IsBoolean != 0 {
			in.store(dst, in.freshVar(name, BoolSort))
			return
		}
		if u.Info()&types.IsString != 0 {
			n := in.chooseFrom(name+".len", []int{0, 1})
			in.store(dst, StrV{in.freshBytes(name, n)})
			return
		}
	case *types.Struct:
		for i := 0; i < u.NumFields(); i++ {
			f := u.Field(i)
			if !f.Exported() {
				continue
			}
			if st, ok := f.Type().Underlying().(*types.Struct); ok && st.NumFields() == 0 {
				continue
			}
			in.havocDecodeField(PtrV{dst.C, extPath(dst.Path, i)}, f.Type(), name+"."+f.Name(), depth+1)
		}
		return
	case *types.Array:
		for i := 0; i < int(u.Len()); i++ {
			in.havocDecodeField(PtrV{dst.C, extPath(dst.Path, i)}, u.Elem(), fmt.Sprintf("%s[%d]", name, i), depth+1)
		}
		return
	case *types.Slice:
		if isByteSlice(t) {
			n := in.chooseFrom(name+".len", in.lensFor(t))
			in.store(dst, in.byteSlice(in.havocBytes(name, n)))
			return
		}
		n := in.chooseFrom(name+".len", []int{0, 1, in.param("havoclen", 2)})
		elems := make([]Value, n)
		z := in.zero(u.Elem())
		var pre []Value
		if cs, ok := in.load(dst).(SliceV); ok && cs.C != nil {
			pre = in.sliceElems(cs)
		}
		for i := range elems {
			if i < len(pre) {
				elems[i] = pre[i] // decoding into an existing slice keeps the shape of its elements
			} else {
				elems[i] = z
			}
		}
		s := in.newSlice(u.Elem(), elems, n)
		s.C.Tag = "" // elements are aggregates: use persistent updates
		in.store(dst, s)
		for i := 0; i < n; i++ {
			in.havocDecodeField(PtrV{s.C, extPath(s.Path, i)}, u.Elem(), fmt.Sprintf("%s[%d]", name, i), depth+1)
		}
		return
	case *types.Map:
		in.cellSeq++
		m := &MapObj{ID: in.cellSeq}
		n := in.chooseFrom(name+".len", []int{0, 1, 2})
		keys := []string{"a", "b", "zz", ""}
		used := map[int]bool{}
		for i := 0; i < n; i++ {
			ki := in.chooseFrom(fmt.Sprintf("%s.key%d", name, i), []int{0, 1, 2, 3})
			if used[ki] {
				panic(pathEnd{"duplicate map key choice"})
			}
			used[ki] = true
			c := in.newCell(u.Elem(), in.zero(u.Elem()))
			in.havocDecodeField(PtrV{C: c}, u.Elem(), fmt.Sprintf("%s.val%d", name, i), depth+1)
			m.Keys = append(m.Keys, concStr(keys[ki]))
			m.Vals = append(m.Vals, c.V)
			m.Del = append(m.Del, false)
		}
		in.store(dst, MapV{m})
		return
	}
	in.fail("havocDecode: unsupported type %s at %s", t, name)
}

// havocDecodeField handles presence (absent / present / null) for pointer, interface, slice fields.
func (in *Interp) havocDecodeField(dst PtrV, t types.Type, name string, depth int) {
	switch u := t.Underlying().(type) {
	case *types.Pointer:
		cur, _ := in.load(dst).(PtrV)
		modes := []int{0, 1} // 0 absent, 1 present
		if cur.C != nil {
			modes = []int{1, 0, 2} // pre-shaped: also null -> nil
		}
		switch in.chooseFrom(name+".mode", modes) {
		case 0:
			return
		case 2:
			in.store(dst, PtrV{})
			return
		}
		var c *Cell
		if cur.C != nil && len(cur.Path) == 0 {
			c = in.newCell(cur.C.T, in.load(cur)) // decode into (a copy of) the pre-shaped value
		} else {
			c = in.newCell(u.Elem(), in.zero(u.Elem()))
		}
		in.havocDecodeInto(PtrV{C: c}, u.Elem(), name, depth)
		in.store(dst, PtrV{C: c})
		return
	case *types.Interface:
		iv, _ := in.load(dst).(IfaceV)
		if iv.T == nil {
			// a CBOR value for a nil non-empty interface cannot be decoded: error; absent is fine
			if in.chooseFrom(name+".mode", []int{0, 1}) == 1 {
				panic(decodeFail{name + ": cannot decode into nil interface"})
			}
			return
		}
		p, ok := iv.V.(PtrV)
		if !ok || p.C == nil {
			return
		}
		if in.chooseFrom(name+".mode", []int{1, 0}) == 0 {
			return
		}
		pt := iv.T.Underlying().(*types.Pointer)
		c := in.newCell(pt.Elem(), in.load(p))
		in.havocDecodeInto(PtrV{C: c}, pt.Elem(), name, depth)
		in.store(dst, IfaceV{T: iv.T, V: PtrV{C: c}})
		return
	case *types.Slice:
		if in.chooseFrom(name+".mode", []int{1, 0}) == 0 {
			return // absent: stays as it was (nil unless pre-shaped)
		}
	case *types.Map:
		if in.chooseFrom(name+".mode", []int{1, 0}) == 0 {
			return
		}
	}
	in.havocDecodeInto(dst, t, name, depth)
}

func init() {
	intrinsics[vsymPkg+"CborFor"] = func(in *Interp, fr *Frame, a []Value) Value {
		name := argStr(a[1])
		bs := make([]*Term, cborTokenLen)
		for i := range bs {
			bs[i] = Var(fmt.Sprintf("%s.tok[%d]", name, i), BV(8))
		}
		toks, _ := in.misc["havocToks"].(map[string]*havocTok)
		if toks == nil {
			toks = map[string]*havocTok{}
			in.misc["havocToks"] = toks
		}
		toks[tokKey(bs)] = &havocTok{name: name, b: bs}
		return in.byteSlice(bs)
	}
}

// havocTokenDecode is called by cborUnmarshal when data is a CborFor token.
func (in *Interp) havocTokenDecode(data []*Term, dp PtrV, elem types.Type) (Value, bool) {
	toks, _ := in.misc["havocToks"].(map[string]*havocTok)
	if toks == nil {
		return nil, false
	}
	tk := toks[tokKey(data)]
	if tk == nil {
		return nil, false
	}
	in.stubsSeen["cbor-model:Unmarshal(havoc by type, replayable)"] = true
	var res Value = nilErr
	func() {
		defer func() {
			if r := recover(); r != nil {
				if df, ok := r.(decodeFail); ok {
					res = in.mkError("cbor: "+df.why, nil)
					return
				}
				panic(r)
			}
		}()
		in.havocDecodeInto(dp, elem, tk.name, 0)
	}()
	return res, true
}
