package main

// SMT term DAG: hash-consed, constant-folded at construction, emitted as SMT-LIB2.

import (
	"fmt"
	"math/big"
	"sort"
	"strings"
)

type SortKind int

const (
	SBool SortKind = iota
	SBV
	SInt
	SReal
)

type Sort struct {
	K SortKind
	W int
}

func (s Sort) String() string {
	switch s.K {
	case SBool:
		return "Bool"
	case SBV:
		return fmt.Sprintf("(_ BitVec %d)", s.W)
	case SInt:
		return "Int"
	case SReal:
		return "Real"
	}
	return "?"
}

var BoolSort = Sort{SBool, 0}
var IntSort = Sort{SInt, 0}
var RealSort = Sort{SReal, 0}

func BV(w int) Sort { return Sort{SBV, w} }

type Term struct {
	Op   string // "const", "var", or SMT operator (possibly indexed like "(_ extract 7 0)")
	Args []*Term
	S    Sort
	C    *big.Int // constants (BV: unsigned value; Int/Real: value; Bool: 0/1)
	Name string   // var name
	id   int
}

type TermPool struct {
	tab  map[string]*Term
	next int
	vars []*Term
}

func NewTermPool() *TermPool { return &TermPool{tab: map[string]*Term{}} }

var TP = NewTermPool()

func (p *TermPool) intern(t *Term) *Term {
	var sb strings.Builder
	sb.WriteString(t.Op)
	sb.WriteByte('|')
	sb.WriteString(t.S.String())
	sb.WriteByte('|')
	if t.C != nil {
		sb.WriteString(t.C.String())
	}
	sb.WriteString(t.Name)
	for _, a := range t.Args {
		fmt.Fprintf(&sb, ",%d", a.id)
	}
	k := sb.String()
	if e, ok := p.tab[k]; ok {
		return e
	}
	p.next++
	t.id = p.next
	p.tab[k] = t
	if t.Op == "var" {
		p.vars = append(p.vars, t)
	}
	return t
}

func mask(w int) *big.Int {
	m := new(big.Int).Lsh(big.NewInt(1), uint(w))
	return m.Sub(m, big.NewInt(1))
}

var smallConsts = map[[2]uint64]*Term{}

func BVConst(v *big.Int, w int) *Term {
	if w <= 64 && v.Sign() >= 0 && v.IsUint64() {
		u := v.Uint64()
		if w < 64 {
			u &= (uint64(1) << uint(w)) - 1
		}
		k := [2]uint64{uint64(w), u}
		if t, ok := smallConsts[k]; ok {
			return t
		}
		t := TP.intern(&Term{Op: "const", S: BV(w), C: new(big.Int).SetUint64(u)})
		smallConsts[k] = t
		return t
	}
	return bvConstSlow(v, w)
}

func bvConstSlow(v *big.Int, w int) *Term {
	c := new(big.Int).And(v, mask(w)) // two's complement wrap for negatives works with And on big.Int
	if v.Sign() < 0 {
		m := new(big.Int).Lsh(big.NewInt(1), uint(w))
		c = new(big.Int).Mod(v, m)
	}
	return TP.intern(&Term{Op: "const", S: BV(w), C: c})
}
func BVConst64(v uint64, w int) *Term {
	if w <= 64 {
		u := v
		if w < 64 {
			u &= (uint64(1) << uint(w)) - 1
		}
		k := [2]uint64{uint64(w), u}
		if t, ok := smallConsts[k]; ok {
			return t
		}
	}
	return BVConst(new(big.Int).SetUint64(v), w)
}
func BVConstI(v int64, w int) *Term {
	if v >= 0 {
		return BVConst64(uint64(v), w)
	}
	return BVConst(big.NewInt(v), w)
}
func BoolConst(b bool) *Term {
	c := big.NewInt(0)
	if b {
		c = big.NewInt(1)
	}
	return TP.intern(&Term{Op: "const", S: BoolSort, C: c})
}
func IntConst(v *big.Int) *Term { return TP.intern(&Term{Op: "const", S: IntSort, C: new(big.Int).Set(v)}) }
func IntConstI(v int64) *Term   { return IntConst(big.NewInt(v)) }
func RealConst(v *big.Int) *Term {
	return TP.intern(&Term{Op: "const", S: RealSort, C: new(big.Int).Set(v)})
}

var True = BoolConst(true)
var False = BoolConst(false)

func Var(name string, s Sort) *Term { return TP.intern(&Term{Op: "var", S: s, Name: name}) }

func (t *Term) IsConst() bool { return t.Op == "const" }
func (t *Term) IsTrue() bool  { return t.Op == "const" && t.S.K == SBool && t.C.Sign() != 0 }
func (t *Term) IsFalse() bool { return t.Op == "const" && t.S.K == SBool && t.C.Sign() == 0 }

// Signed value of a BV constant.
func (t *Term) SignedVal() *big.Int {
	v := new(big.Int).Set(t.C)
	if t.S.K == SBV && v.Bit(t.S.W-1) == 1 {
		v.Sub(v, new(big.Int).Lsh(big.NewInt(1), uint(t.S.W)))
	}
	return v
}
func (t *Term) Uint64() uint64 { return t.C.Uint64() }
func (t *Term) Int64() int64   { return t.SignedVal().Int64() }

func mk(op string, s Sort, args ...*Term) *Term {
	return TP.intern(&Term{Op: op, S: s, Args: args})
}

func allConst(args ...*Term) bool {
	for _, a := range args {
		if !a.IsConst() {
			return false
		}
	}
	return true
}

// ---- Boolean ----

func Not(a *Term) *Term {
	if a.IsConst() {
		return BoolConst(a.IsFalse())
	}
	if a.Op == "not" {
		return a.Args[0]
	}
	return mk("not", BoolSort, a)
}
func And(as ...*Term) *Term {
	var out []*Term
	seen := map[int]bool{}
	for _, a := range as {
		if a.IsFalse() {
			return False
		}
		if a.IsTrue() || seen[a.id] {
			continue
		}
		seen[a.id] = true
		if a.Op == "and" {
			for _, b := range a.Args {
				if !seen[b.id] {
					seen[b.id] = true
					out = append(out, b)
				}
			}
			continue
		}
		out = append(out, a)
	}
	if len(out) == 0 {
		return True
	}
	if len(out) == 1 {
		return out[0]
	}
	return mk("and", BoolSort, out...)
}
func Or(as ...*Term) *Term {
	var out []*Term
	seen := map[int]bool{}
	for _, a := range as {
		if a.IsTrue() {
			return True
		}
		if a.IsFalse() || seen[a.id] {
			continue
		}
		seen[a.id] = true
		out = append(out, a)
	}
	if len(out) == 0 {
		return False
	}
	if len(out) == 1 {
		return out[0]
	}
	return mk("or", BoolSort, out...)
}
func Implies(a, b *Term) *Term { return Or(Not(a), b) }
func Ite(c, a, b *Term) *Term {
	if c.IsTrue() {
		return a
	}
	if c.IsFalse() {
		return b
	}
	if a == b {
		return a
	}
	if a.S.K == SBool {
		if a.IsTrue() && b.IsFalse() {
			return c
		}
		if a.IsFalse() && b.IsTrue() {
			return Not(c)
		}
	}
	return mk("ite", a.S, c, a, b)
}
func Eq(a, b *Term) *Term {
	if a == b {
		return True
	}
	if a.S != b.S {
		panic(fmt.Sprintf("Eq sort mismatch %v %v", a.S, b.S))
	}
	if a.IsConst() && b.IsConst() {
		return BoolConst(a.C.Cmp(b.C) == 0)
	}
	if a.S.K == SBool {
		if a.IsConst() {
			a, b = b, a
		}
		if b.IsTrue() {
			return a
		}
		if b.IsFalse() {
			return Not(a)
		}
	}
	if a.id > b.id {
		a, b = b, a
	}
	return mk("=", BoolSort, a, b)
}
func Neq(a, b *Term) *Term { return Not(Eq(a, b)) }

// ---- Bit-vectors ----

func bvBin(op string, a, b *Term, f func(x, y *big.Int, w int) *big.Int) *Term {
	if a.S != b.S {
		panic(fmt.Sprintf("%s sort mismatch %v %v", op, a.S, b.S))
	}
	if a.IsConst() && b.IsConst() && f != nil {
		r := f(a.C, b.C, a.S.W)
		if r != nil {
			return BVConst(r, a.S.W)
		}
	}
	return mk(op, a.S, a, b)
}

func BVAdd(a, b *Term) *Term {
	if a.IsConst() && a.C.Sign() == 0 {
		return b
	}
	if b.IsConst() && b.C.Sign() == 0 {
		return a
	}
	return bvBin("bvadd", a, b, func(x, y *big.Int, w int) *big.Int { return new(big.Int).Add(x, y) })
}
func BVSub(a, b *Term) *Term {
	if b.IsConst() && b.C.Sign() == 0 {
		return a
	}
	if a == b {
		return BVConst64(0, a.S.W)
	}
	return bvBin("bvsub", a, b, func(x, y *big.Int, w int) *big.Int { return new(big.Int).Sub(x, y) })
}
func BVMul(a, b *Term) *Term {
	if a.IsConst() && a.C.Cmp(big.NewInt(1)) == 0 {
		return b
	}
	if b.IsConst() && b.C.Cmp(big.NewInt(1)) == 0 {
		return a
	}
	if (a.IsConst() && a.C.Sign() == 0) || (b.IsConst() && b.C.Sign() == 0) {
		return BVConst64(0, a.S.W)
	}
	return bvBin("bvmul", a, b, func(x, y *big.Int, w int) *big.Int { return new(big.Int).Mul(x, y) })
}
func BVAnd(a, b *Term) *Term {
	if a == b {
		return a
	}
	if a.IsConst() && a.C.Sign() == 0 {
		return a
	}
	if b.IsConst() && b.C.Sign() == 0 {
		return b
	}
	if a.IsConst() && a.C.Cmp(mask(a.S.W)) == 0 {
		return b
	}
	if b.IsConst() && b.C.Cmp(mask(b.S.W)) == 0 {
		return a
	}
	return bvBin("bvand", a, b, func(x, y *big.Int, w int) *big.Int { return new(big.Int).And(x, y) })
}
func BVOr(a, b *Term) *Term {
	if a == b {
		return a
	}
	if a.IsConst() && a.C.Sign() == 0 {
		return b
	}
	if b.IsConst() && b.C.Sign() == 0 {
		return a
	}
	return bvBin("bvor", a, b, func(x, y *big.Int, w int) *big.Int { return new(big.Int).Or(x, y) })
}
func BVXor(a, b *Term) *Term {
	if a == b {
		return BVConst64(0, a.S.W)
	}
	if a.IsConst() && a.C.Sign() == 0 {
		return b
	}
	if b.IsConst() && b.C.Sign() == 0 {
		return a
	}
	return bvBin("bvxor", a, b, func(x, y *big.Int, w int) *big.Int { return new(big.Int).Xor(x, y) })
}
func BVNot(a *Term) *Term {
	if a.IsConst() {
		return BVConst(new(big.Int).Xor(a.C, mask(a.S.W)), a.S.W)
	}
	return mk("bvnot", a.S, a)
}
func BVNeg(a *Term) *Term {
	if a.IsConst() {
		return BVConst(new(big.Int).Neg(a.C), a.S.W)
	}
	return mk("bvneg", a.S, a)
}

func signed(x *big.Int, w int) *big.Int {
	v := new(big.Int).Set(x)
	if v.Bit(w-1) == 1 {
		v.Sub(v, new(big.Int).Lsh(big.NewInt(1), uint(w)))
	}
	return v
}

func BVUDiv(a, b *Term) *Term {
	return bvBin("bvudiv", a, b, func(x, y *big.Int, w int) *big.Int {
		if y.Sign() == 0 {
			return nil
		}
		return new(big.Int).Div(x, y)
	})
}
func BVURem(a, b *Term) *Term {
	return bvBin("bvurem", a, b, func(x, y *big.Int, w int) *big.Int {
		if y.Sign() == 0 {
			return nil
		}
		return new(big.Int).Mod(x, y)
	})
}
func BVSDiv(a, b *Term) *Term {
	return bvBin("bvsdiv", a, b, func(x, y *big.Int, w int) *big.Int {
		if y.Sign() == 0 {
			return nil
		}
		return new(big.Int).Quo(signed(x, w), signed(y, w))
	})
}
func BVSRem(a, b *Term) *Term {
	return bvBin("bvsrem", a, b, func(x, y *big.Int, w int) *big.Int {
		if y.Sign() == 0 {
			return nil
		}
		return new(big.Int).Rem(signed(x, w), signed(y, w))
	})
}
func BVShl(a, b *Term) *Term {
	if b.IsConst() && b.C.Sign() == 0 {
		return a
	}
	return bvBin("bvshl", a, b, func(x, y *big.Int, w int) *big.Int {
		if y.Cmp(big.NewInt(int64(w))) >= 0 {
			return big.NewInt(0)
		}
		return new(big.Int).Lsh(x, uint(y.Uint64()))
	})
}
func BVLshr(a, b *Term) *Term {
	if b.IsConst() && b.C.Sign() == 0 {
		return a
	}
	return bvBin("bvlshr", a, b, func(x, y *big.Int, w int) *big.Int {
		if y.Cmp(big.NewInt(int64(w))) >= 0 {
			return big.NewInt(0)
		}
		return new(big.Int).Rsh(x, uint(y.Uint64()))
	})
}
func BVAshr(a, b *Term) *Term {
	if b.IsConst() && b.C.Sign() == 0 {
		return a
	}
	return bvBin("bvashr", a, b, func(x, y *big.Int, w int) *big.Int {
		s := signed(x, w)
		sh := uint(w)
		if y.Cmp(big.NewInt(int64(w))) < 0 {
			sh = uint(y.Uint64())
		}
		return new(big.Int).Rsh(s, sh)
	})
}

func bvCmp(op string, a, b *Term, f func(x, y *big.Int, w int) bool) *Term {
	if a.S != b.S {
		panic(fmt.Sprintf("%s sort mismatch %v %v", op, a.S, b.S))
	}
	if a.IsConst() && b.IsConst() {
		return BoolConst(f(a.C, b.C, a.S.W))
	}
	return mk(op, BoolSort, a, b)
}
func BVUlt(a, b *Term) *Term {
	if a == b {
		return False
	}
	return bvCmp("bvult", a, b, func(x, y *big.Int, w int) bool { return x.Cmp(y) < 0 })
}
func BVUle(a, b *Term) *Term {
	if a == b {
		return True
	}
	return bvCmp("bvule", a, b, func(x, y *big.Int, w int) bool { return x.Cmp(y) <= 0 })
}
func BVSlt(a, b *Term) *Term {
	if a == b {
		return False
	}
	return bvCmp("bvslt", a, b, func(x, y *big.Int, w int) bool { return signed(x, w).Cmp(signed(y, w)) < 0 })
}
func BVSle(a, b *Term) *Term {
	if a == b {
		return True
	}
	return bvCmp("bvsle", a, b, func(x, y *big.Int, w int) bool { return signed(x, w).Cmp(signed(y, w)) <= 0 })
}

func Extract(a *Term, hi, lo int) *Term {
	if hi == a.S.W-1 && lo == 0 {
		return a
	}
	if a.IsConst() {
		v := new(big.Int).Rsh(a.C, uint(lo))
		return BVConst(v, hi-lo+1)
	}
	if a.Op == "concat" {
		// extract from matching half
		lw := a.Args[1].S.W
		if hi < lw {
			return Extract(a.Args[1], hi, lo)
		}
		if lo >= lw {
			return Extract(a.Args[0], hi-lw, lo-lw)
		}
	}
	if strings.HasPrefix(a.Op, "(_ zero_extend") {
		iw := a.Args[0].S.W
		if hi < iw {
			return Extract(a.Args[0], hi, lo)
		}
		if lo >= iw {
			return BVConst64(0, hi-lo+1)
		}
	}
	return mk(fmt.Sprintf("(_ extract %d %d)", hi, lo), BV(hi-lo+1), a)
}
func Concat(hi, lo *Term) *Term {
	if hi.IsConst() && lo.IsConst() {
		v := new(big.Int).Lsh(hi.C, uint(lo.S.W))
		v.Or(v, lo.C)
		return BVConst(v, hi.S.W+lo.S.W)
	}
	return mk("concat", BV(hi.S.W+lo.S.W), hi, lo)
}
func ZeroExt(a *Term, w int) *Term {
	if w == a.S.W {
		return a
	}
	if w < a.S.W {
		return Extract(a, w-1, 0)
	}
	if a.IsConst() {
		return BVConst(a.C, w)
	}
	return mk(fmt.Sprintf("(_ zero_extend %d)", w-a.S.W), BV(w), a)
}
func SignExt(a *Term, w int) *Term {
	if w == a.S.W {
		return a
	}
	if w < a.S.W {
		return Extract(a, w-1, 0)
	}
	if a.IsConst() {
		return BVConst(signed(a.C, a.S.W), w)
	}
	return mk(fmt.Sprintf("(_ sign_extend %d)", w-a.S.W), BV(w), a)
}

// ---- Int / Real arithmetic ----

func arith(op string, a, b *Term) *Term {
	if a.S != b.S {
		panic(fmt.Sprintf("%s sort mismatch %v %v", op, a.S, b.S))
	}
	return mk(op, a.S, a, b)
}
func numConst(s Sort, v *big.Int) *Term {
	if s.K == SReal {
		return RealConst(v)
	}
	return IntConst(v)
}
func Add(a, b *Term) *Term {
	if a.IsConst() && b.IsConst() {
		return numConst(a.S, new(big.Int).Add(a.C, b.C))
	}
	if a.IsConst() && a.C.Sign() == 0 {
		return b
	}
	if b.IsConst() && b.C.Sign() == 0 {
		return a
	}
	return arith("+", a, b)
}
func Sub(a, b *Term) *Term {
	if a.IsConst() && b.IsConst() {
		return numConst(a.S, new(big.Int).Sub(a.C, b.C))
	}
	if b.IsConst() && b.C.Sign() == 0 {
		return a
	}
	if a == b {
		return numConst(a.S, big.NewInt(0))
	}
	return arith("-", a, b)
}
func Mul(a, b *Term) *Term {
	if a.IsConst() && b.IsConst() {
		return numConst(a.S, new(big.Int).Mul(a.C, b.C))
	}
	if a.IsConst() && a.C.Sign() == 0 {
		return a
	}
	if b.IsConst() && b.C.Sign() == 0 {
		return b
	}
	if a.IsConst() && a.C.Cmp(big.NewInt(1)) == 0 {
		return b
	}
	if b.IsConst() && b.C.Cmp(big.NewInt(1)) == 0 {
		return a
	}
	return arith("*", a, b)
}
func Neg(a *Term) *Term {
	if a.IsConst() {
		return numConst(a.S, new(big.Int).Neg(a.C))
	}
	return mk("-", a.S, a)
}
func IntDiv(a, b *Term) *Term { // SMT-LIB div (floor for positive divisor)
	if a.IsConst() && b.IsConst() && b.C.Sign() > 0 {
		q := new(big.Int)
		m := new(big.Int)
		q.DivMod(a.C, b.C, m)
		return IntConst(q)
	}
	return arith("div", a, b)
}
func IntMod(a, b *Term) *Term {
	if a.IsConst() && b.IsConst() && b.C.Sign() > 0 {
		return IntConst(new(big.Int).Mod(a.C, b.C))
	}
	return arith("mod", a, b)
}
func Lt(a, b *Term) *Term {
	if a.IsConst() && b.IsConst() {
		return BoolConst(a.C.Cmp(b.C) < 0)
	}
	if a == b {
		return False
	}
	return mk("<", BoolSort, a, b)
}
func Le(a, b *Term) *Term {
	if a.IsConst() && b.IsConst() {
		return BoolConst(a.C.Cmp(b.C) <= 0)
	}
	if a == b {
		return True
	}
	return mk("<=", BoolSort, a, b)
}
func Gt(a, b *Term) *Term { return Lt(b, a) }
func Ge(a, b *Term) *Term { return Le(b, a) }

// UF application (declared lazily by the emitter). name must be a valid SMT symbol.
func App(name string, s Sort, args ...*Term) *Term {
	return mk("uf:"+name, s, args...)
}

// ---- Emission ----

func (t *Term) constStr() string {
	switch t.S.K {
	case SBool:
		if t.C.Sign() != 0 {
			return "true"
		}
		return "false"
	case SBV:
		if t.S.W%4 == 0 {
			return fmt.Sprintf("#x%0*s", t.S.W/4, t.C.Text(16))
		}
		return fmt.Sprintf("#b%0*s", t.S.W, t.C.Text(2))
	case SInt:
		if t.C.Sign() < 0 {
			return "(- " + new(big.Int).Neg(t.C).String() + ")"
		}
		return t.C.String()
	case SReal:
		if t.C.Sign() < 0 {
			return "(- " + new(big.Int).Neg(t.C).String() + ".0)"
		}
		return t.C.String() + ".0"
	}
	return "?"
}

func smtSym(name string) string {
	ok := true
	for _, r := range name {
		if !(r >= 'a' && r <= 'z' || r >= 'A' && r <= 'Z' || r >= '0' && r <= '9' || strings.ContainsRune("_.!$%&*+-/<=>?@^~", r)) {
			ok = false
		}
	}
	if ok && name != "" && !(name[0] >= '0' && name[0] <= '9') {
		return name
	}
	return "|" + strings.ReplaceAll(strings.ReplaceAll(name, "|", "!"), "\\", "!") + "|"
}

// Emitter writes definitions for shared nodes incrementally.
type Emitter struct {
	defined map[int]bool
	ufs     map[string]bool
	out     *strings.Builder
	log     []int    // definition order (for scoped undo)
	ufLog   []string
	marks   [][2]int
}

// PushScope / PopScope track solver push/pop so that definitions made inside a scope are forgotten.
func (e *Emitter) PushScope() { e.marks = append(e.marks, [2]int{len(e.log), len(e.ufLog)}) }
func (e *Emitter) PopScope() {
	m := e.marks[len(e.marks)-1]
	e.marks = e.marks[:len(e.marks)-1]
	for _, id := range e.log[m[0]:] {
		delete(e.defined, id)
	}
	e.log = e.log[:m[0]]
	for _, u := range e.ufLog[m[1]:] {
		delete(e.ufs, u)
	}
	e.ufLog = e.ufLog[:m[1]]
}

func NewEmitter() *Emitter {
	return &Emitter{defined: map[int]bool{}, ufs: map[string]bool{}, out: &strings.Builder{}}
}

func (e *Emitter) ref(t *Term) string {
	if t.Op == "const" {
		return t.constStr()
	}
	if t.Op == "var" {
		return smtSym(t.Name)
	}
	return fmt.Sprintf("t!%d", t.id)
}

// Define makes sure t and all its sub-terms have definitions in the solver; returns the text to send.
func (e *Emitter) Define(t *Term) string {
	e.out.Reset()
	e.define(t)
	return e.out.String()
}

func (e *Emitter) define(t *Term) {
	if t.Op == "const" || e.defined[t.id] {
		return
	}
	// iterative post-order to avoid deep recursion
	type fr struct {
		t *Term
		i int
	}
	st := []fr{{t, 0}}
	for len(st) > 0 {
		f := &st[len(st)-1]
		if f.t.Op == "const" || e.defined[f.t.id] {
			st = st[:len(st)-1]
			continue
		}
		if f.i < len(f.t.Args) {
			a := f.t.Args[f.i]
			f.i++
			if a.Op != "const" && !e.defined[a.id] {
				st = append(st, fr{a, 0})
			}
			continue
		}
		e.emitOne(f.t)
		e.defined[f.t.id] = true
		e.log = append(e.log, f.t.id)
		st = st[:len(st)-1]
	}
}

func (e *Emitter) emitOne(t *Term) {
	if t.Op == "var" {
		fmt.Fprintf(e.out, "(declare-const %s %s)\n", smtSym(t.Name), t.S)
		return
	}
	op := t.Op
	if strings.HasPrefix(op, "uf:") {
		name := smtSym(op[3:])
		if !e.ufs[name] {
			e.ufs[name] = true
			e.ufLog = append(e.ufLog, name)
			var as []string
			for _, a := range t.Args {
				as = append(as, a.S.String())
			}
			fmt.Fprintf(e.out, "(declare-fun %s (%s) %s)\n", name, strings.Join(as, " "), t.S)
		}
		op = name
		if len(t.Args) == 0 {
			fmt.Fprintf(e.out, "(define-fun t!%d () %s %s)\n", t.id, t.S, op)
			return
		}
	}
	var sb strings.Builder
	sb.WriteByte('(')
	sb.WriteString(op)
	for _, a := range t.Args {
		sb.WriteByte(' ')
		sb.WriteString(e.ref(a))
	}
	sb.WriteByte(')')
	fmt.Fprintf(e.out, "(define-fun t!%d () %s %s)\n", t.id, t.S, sb.String())
}

// Vars returns all variables under t (sorted by name).
func VarsOf(ts ...*Term) []*Term {
	seen := map[int]bool{}
	var out []*Term
	var st []*Term
	st = append(st, ts...)
	for len(st) > 0 {
		t := st[len(st)-1]
		st = st[:len(st)-1]
		if seen[t.id] {
			continue
		}
		seen[t.id] = true
		if t.Op == "var" {
			out = append(out, t)
		}
		st = append(st, t.Args...)
	}
	sort.Slice(out, func(i, j int) bool { return out[i].Name < out[j].Name })
	return out
}

// String renders a term for humans (small terms only).
func (t *Term) String() string {
	if t.Op == "const" {
		return t.constStr()
	}
	if t.Op == "var" {
		return t.Name
	}
	var sb strings.Builder
	sb.WriteByte('(')
	sb.WriteString(t.Op)
	for _, a := range t.Args {
		sb.WriteByte(' ')
		s := a.String()
		if len(s) > 200 {
			s = s[:200] + "…"
		}
		sb.WriteString(s)
	}
	sb.WriteByte(')')
	return sb.String()
}

// Eval evaluates a term under a model of variable values (used to concretise models for replay).
func Eval(t *Term, m map[string]*big.Int) *big.Int {
	memo := map[int]*big.Int{}
	var ev func(t *Term) *big.Int
	ev = func(t *Term) *big.Int {
		if t.Op == "const" {
			return t.C
		}
		if v, ok := memo[t.id]; ok {
			return v
		}
		var r *big.Int
		if t.Op == "var" {
			r = m[t.Name]
			if r == nil {
				r = big.NewInt(0)
			}
			memo[t.id] = r
			return r
		}
		// rebuild with constant args: use constructors' folding
		args := make([]*Term, len(t.Args))
		for i, a := range t.Args {
			v := ev(a)
			switch a.S.K {
			case SBool:
				args[i] = BoolConst(v.Sign() != 0)
			case SBV:
				args[i] = BVConst(v, a.S.W)
			case SInt:
				args[i] = IntConst(v)
			case SReal:
				args[i] = RealConst(v)
			}
		}
		f := rebuild(t, args)
		if f.IsConst() {
			r = f.C
		} else {
			r = big.NewInt(0)
		}
		memo[t.id] = r
		return r
	}
	return ev(t)
}

func rebuild(t *Term, a []*Term) *Term {
	switch t.Op {
	case "not":
		return Not(a[0])
	case "and":
		return And(a...)
	case "or":
		return Or(a...)
	case "ite":
		return Ite(a[0], a[1], a[2])
	case "=":
		return Eq(a[0], a[1])
	case "bvadd":
		return BVAdd(a[0], a[1])
	case "bvsub":
		return BVSub(a[0], a[1])
	case "bvmul":
		return BVMul(a[0], a[1])
	case "bvand":
		return BVAnd(a[0], a[1])
	case "bvor":
		return BVOr(a[0], a[1])
	case "bvxor":
		return BVXor(a[0], a[1])
	case "bvnot":
		return BVNot(a[0])
	case "bvneg":
		return BVNeg(a[0])
	case "bvudiv":
		return BVUDiv(a[0], a[1])
	case "bvurem":
		return BVURem(a[0], a[1])
	case "bvsdiv":
		return BVSDiv(a[0], a[1])
	case "bvsrem":
		return BVSRem(a[0], a[1])
	case "bvshl":
		return BVShl(a[0], a[1])
	case "bvlshr":
		return BVLshr(a[0], a[1])
	case "bvashr":
		return BVAshr(a[0], a[1])
	case "bvult":
		return BVUlt(a[0], a[1])
	case "bvule":
		return BVUle(a[0], a[1])
	case "bvslt":
		return BVSlt(a[0], a[1])
	case "bvsle":
		return BVSle(a[0], a[1])
	case "concat":
		return Concat(a[0], a[1])
	case "+":
		return Add(a[0], a[1])
	case "*":
		return Mul(a[0], a[1])
	case "-":
		if len(a) == 1 {
			return Neg(a[0])
		}
		return Sub(a[0], a[1])
	case "div":
		return IntDiv(a[0], a[1])
	case "mod":
		return IntMod(a[0], a[1])
	case "<":
		return Lt(a[0], a[1])
	case "<=":
		return Le(a[0], a[1])
	}
	var hi, lo, n int
	if _, err := fmt.Sscanf(t.Op, "(_ extract %d %d)", &hi, &lo); err == nil {
		return Extract(a[0], hi, lo)
	}
	if _, err := fmt.Sscanf(t.Op, "(_ zero_extend %d)", &n); err == nil {
		return ZeroExt(a[0], a[0].S.W+n)
	}
	if _, err := fmt.Sscanf(t.Op, "(_ sign_extend %d)", &n); err == nil {
		return SignExt(a[0], a[0].S.W+n)
	}
	return mk(t.Op, t.S, a...)
}
