package main

// Model of the decred secp256k1 primitives used by pkg/math/curve/secp256k1.go:
// ModNScalar and FieldVal are concrete (exact, computed with the real library) or opaque symbolic values.

import (
	"fmt"
	"go/types"
	"math/big"

	"github.com/decred/dcrd/dcrec/secp256k1/v4"
)

const dcrPkg = "github.com/decred/dcrd/dcrec/secp256k1/v4."

var curveN, _ = new(big.Int).SetString("FFFFFFFFFFFFFFFFFFFFFFFFFFFFFFFEBAAEDCE6AF48A03BBFD25E8CD0364141", 16)
var curveP, _ = new(big.Int).SetString("FFFFFFFFFFFFFFFFFFFFFFFFFFFFFFFFFFFFFFFFFFFFFFFFFFFFFFFEFFFFFC2F", 16)

// ElemV: an element of Z_n (scalar) or F_p (field value).
type ElemV struct {
	C     *big.Int // concrete, reduced
	Sym   string   // opaque symbolic identity (if C == nil)
	Field bool
	B     []*Term // for values decoded from symbolic bytes: the 32 big-endian bytes (exact value, unreduced)
	Par   *Term   // parity (Bool) when it is a function of other symbolic data
}

func (*ElemV) ModelName() string { return "elem" }

func (e *ElemV) EqModel(in *Interp, o Value) *Term {
	x, ok := o.(*ElemV)
	if !ok {
		return False
	}
	return in.elemEq(e, x)
}

func (e *ElemV) SnapModel(in *Interp) *Snap {
	if e.C != nil {
		return &Snap{Kind: "model", Tag: "elem:" + e.C.Text(16)}
	}
	if e.B != nil {
		return &Snap{Kind: "str", S: e.B, Tag: "elem"}
	}
	return &Snap{Kind: "model", Tag: "elem-sym:" + e.Sym}
}

func (in *Interp) elemEq(a, b *ElemV) *Term {
	if a.C != nil && b.C != nil {
		return BoolConst(a.C.Cmp(b.C) == 0)
	}
	if a.C == nil && b.C == nil && a.Sym == b.Sym {
		return True
	}
	// opaque comparison: nondeterministic but consistent per pair
	x, y := a.key(), b.key()
	if x > y {
		x, y = y, x
	}
	in.stubsSeen["dcr-model:opaque equality"] = true
	return Var("elemeq("+x+","+y+")", BoolSort)
}

func (e *ElemV) key() string {
	if e.C != nil {
		return e.C.Text(16)
	}
	return e.Sym
}

func (in *Interp) freshElem(field bool, what string) *ElemV {
	k, _ := in.misc["elemSeq"].(int)
	in.misc["elemSeq"] = k + 1
	in.stubsSeen["dcr-model:opaque value"] = true
	return &ElemV{Sym: fmt.Sprintf("%s#%d", what, k), Field: field}
}

func (in *Interp) elem(v Value) *ElemV {
	p, ok := v.(PtrV)
	if !ok {
		in.fail("elem: not a pointer %T", v)
	}
	x := in.load(p)
	e, ok := x.(*ElemV)
	if !ok {
		in.fail("elem: pointer to %T", x)
	}
	return e
}

func modOf(field bool) *big.Int {
	if field {
		return curveP
	}
	return curveN
}

func toModN(c *big.Int) *secp256k1.ModNScalar {
	var s secp256k1.ModNScalar
	b := make([]byte, 32)
	c.FillBytes(b)
	s.SetByteSlice(b)
	return &s
}

func toFieldVal(c *big.Int) *secp256k1.FieldVal {
	var f secp256k1.FieldVal
	b := make([]byte, 32)
	c.FillBytes(b)
	f.SetByteSlice(b)
	return &f
}

func fromFieldVal(f *secp256k1.FieldVal) *big.Int {
	f.Normalize()
	b := f.Bytes()
	return new(big.Int).SetBytes(b[:])
}

// point access: a JacobianPoint is a real struct {X, Y, Z FieldVal}
func (in *Interp) loadJac(v Value) (x, y, z *ElemV, p PtrV) {
	p = v.(PtrV)
	sv := in.load(p).(*StructV)
	return sv.F[0].(*ElemV), sv.F[1].(*ElemV), sv.F[2].(*ElemV), p
}

func (in *Interp) storeJac(p PtrV, x, y, z *ElemV) {
	in.store(p, &StructV{F: []Value{x, y, z}})
}

func jacConcrete(x, y, z *ElemV) (*secp256k1.JacobianPoint, bool) {
	if x.C == nil || y.C == nil || z.C == nil {
		return nil, false
	}
	var j secp256k1.JacobianPoint
	j.X.Set(toFieldVal(x.C))
	j.Y.Set(toFieldVal(y.C))
	j.Z.Set(toFieldVal(z.C))
	return &j, true
}

func (in *Interp) storeJacConcrete(p PtrV, j *secp256k1.JacobianPoint) {
	in.storeJac(p, &ElemV{C: fromFieldVal(&j.X), Field: true}, &ElemV{C: fromFieldVal(&j.Y), Field: true}, &ElemV{C: fromFieldVal(&j.Z), Field: true})
}

func (in *Interp) storeJacOpaque(p PtrV, what string) {
	in.storeJac(p, in.freshElem(true, what+".X"), in.freshElem(true, what+".Y"), in.freshElem(true, what+".Z"))
}

func init() {
	modelZero[dcrPkg+"ModNScalar"] = func(in *Interp) Value { return &ElemV{C: new(big.Int)} }
	modelZero[dcrPkg+"FieldVal"] = func(in *Interp) Value { return &ElemV{C: new(big.Int), Field: true} }
	S := func(name string, f Intrinsic) { intrinsics["(*"+dcrPkg+"ModNScalar)."+name] = f }
	F := func(name string, f Intrinsic) { intrinsics["(*"+dcrPkg+"FieldVal)."+name] = f }

	set := func(in *Interp, dst Value, e *ElemV) Value { in.store(dst.(PtrV), e); return dst }
	binop := func(field bool, what string, f func(a, b, m *big.Int) *big.Int) Intrinsic {
		return func(in *Interp, fr *Frame, a []Value) Value {
			x, y := in.elem(a[0]), in.elem(a[1])
			if x.C != nil && y.C != nil {
				m := modOf(field)
				return set(in, a[0], &ElemV{C: f(x.C, y.C, m), Field: field})
			}
			return set(in, a[0], in.freshElem(field, what))
		}
	}
	S("Add", binop(false, "sadd", func(a, b, m *big.Int) *big.Int { r := new(big.Int).Add(a, b); return r.Mod(r, m) }))
	S("Mul", binop(false, "smul", func(a, b, m *big.Int) *big.Int { r := new(big.Int).Mul(a, b); return r.Mod(r, m) }))
	S("Set", func(in *Interp, fr *Frame, a []Value) Value { e := in.elem(a[1]); in.elem(a[0]); return set(in, a[0], e) })
	S("Negate", func(in *Interp, fr *Frame, a []Value) Value {
		x := in.elem(a[0])
		if x.C != nil {
			r := new(big.Int).Neg(x.C)
			return set(in, a[0], &ElemV{C: r.Mod(r, curveN)})
		}
		if x.B != nil {
			// negation is an injective function of the value: modelled with the collision-free function model
			app := in.hashApply("scalar-negate", nil, x.B)
			nb := make([]*Term, 32)
			for i := range nb {
				nb[i] = app.outByte(in, i)
			}
			e := in.freshElem(false, "sneg")
			e.B = nb
			return set(in, a[0], e)
		}
		return set(in, a[0], in.freshElem(false, "sneg"))
	})
	S("InverseNonConst", func(in *Interp, fr *Frame, a []Value) Value {
		x := in.elem(a[0])
		if x.C != nil {
			r := new(big.Int).ModInverse(x.C, curveN)
			if r == nil {
				r = new(big.Int) // inverse of 0 is 0 in decred
			}
			return set(in, a[0], &ElemV{C: r})
		}
		return set(in, a[0], in.freshElem(false, "sinv"))
	})
	S("IsZero", func(in *Interp, fr *Frame, a []Value) Value {
		x := in.elem(a[0])
		if x.C != nil {
			return BoolConst(x.C.Sign() == 0)
		}
		if x.B != nil {
			if in.param("assumenonzero", 0) == 1 {
				in.stubsSeen["genericity: digest-derived scalars are non-zero"] = true
				return False
			}
			zs := make([]*Term, len(x.B))
			for i, b := range x.B {
				zs[i] = Eq(b, BVConst64(0, 8))
			}
			return And(zs...)
		}
		return in.elemEq(x, &ElemV{C: new(big.Int)})
	})
	S("IsOverHalfOrder", func(in *Interp, fr *Frame, a []Value) Value {
		x := in.elem(a[0])
		if x.C != nil {
			return BoolConst(x.C.Cmp(new(big.Int).Rsh(curveN, 1)) > 0)
		}
		return Var("overhalf("+x.Sym+")", BoolSort)
	})
	S("Equals", func(in *Interp, fr *Frame, a []Value) Value { return in.elemEq(in.elem(a[0]), in.elem(a[1])) })
	S("Bytes", func(in *Interp, fr *Frame, a []Value) Value {
		x := in.elem(a[0])
		return in.elemBytesArr(x)
	})
	setBytes := func(field bool) func(in *Interp, dst Value, bs []*Term) *Term {
		return func(in *Interp, dst Value, bs []*Term) *Term {
			// returns the overflow flag (value >= modulus) as Bool
			in.elem(dst)
			if len(bs) > 32 {
				bs = bs[:32] // SetByteSlice truncates to the first 32 bytes
			}
			for len(bs) < 32 {
				bs = append([]*Term{BVConst64(0, 8)}, bs...)
			}
			if cb, ok := allConstBytes(bs); ok {
				v := new(big.Int).SetBytes(cb)
				m := modOf(field)
				over := v.Cmp(m) >= 0
				v.Mod(v, m)
				in.store(dst.(PtrV), &ElemV{C: v, Field: field})
				return BoolConst(over)
			}
			e := in.freshElem(field, "frombytes")
			e.B = bs
			in.store(dst.(PtrV), e)
			// overflow decided exactly on the 256-bit value
			var v *Term = bs[0]
			for _, b := range bs[1:] {
				v = Concat(v, b)
			}
			return BVUle(BVConst(modOf(field), 256), v)
		}
	}
	S("SetByteSlice", func(in *Interp, fr *Frame, a []Value) Value {
		var bs []*Term
		if s := a[1].(SliceV); s.C != nil {
			bs = in.bytesOf(s)
		}
		return setBytes(false)(in, a[0], bs)
	})
	S("SetBytes", func(in *Interp, fr *Frame, a []Value) Value {
		arr := in.load(a[1].(PtrV)).(*ArrV)
		bs := make([]*Term, 32)
		for i := range bs {
			bs[i] = arr.E[i].(*Term)
		}
		ov := setBytes(false)(in, a[0], bs)
		return Ite(ov, BVConst64(1, 32), BVConst64(0, 32))
	})
	S("SetInt", func(in *Interp, fr *Frame, a []Value) Value {
		t := a[1].(*Term)
		return set(in, a[0], &ElemV{C: new(big.Int).Set(t.C)})
	})
	// FieldVal
	F("Set", func(in *Interp, fr *Frame, a []Value) Value { e := in.elem(a[1]); in.elem(a[0]); return set(in, a[0], e) })
	F("SetInt", func(in *Interp, fr *Frame, a []Value) Value {
		in.elem(a[0])
		t := a[1].(*Term)
		return set(in, a[0], &ElemV{C: new(big.Int).Set(t.C), Field: true})
	})
	F("SetByteSlice", func(in *Interp, fr *Frame, a []Value) Value {
		var bs []*Term
		if s := a[1].(SliceV); s.C != nil {
			bs = in.bytesOf(s)
		}
		return setBytes(true)(in, a[0], bs)
	})
	F("IsZero", func(in *Interp, fr *Frame, a []Value) Value {
		x := in.elem(a[0])
		if x.C != nil {
			return BoolConst(x.C.Sign() == 0)
		}
		return in.elemEq(x, &ElemV{C: new(big.Int), Field: true})
	})
	F("IsOdd", func(in *Interp, fr *Frame, a []Value) Value {
		x := in.elem(a[0])
		if x.C != nil {
			return BoolConst(x.C.Bit(0) == 1)
		}
		if x.Par != nil {
			return x.Par
		}
		return Var("odd("+x.Sym+")", BoolSort)
	})
	F("IsOddBit", func(in *Interp, fr *Frame, a []Value) Value {
		x := in.elem(a[0])
		if x.C != nil {
			return BVConst64(uint64(x.C.Bit(0)), 32)
		}
		if x.Par != nil {
			return Ite(x.Par, BVConst64(1, 32), BVConst64(0, 32))
		}
		return Ite(Var("odd("+x.Sym+")", BoolSort), BVConst64(1, 32), BVConst64(0, 32))
	})
	F("Equals", func(in *Interp, fr *Frame, a []Value) Value { return in.elemEq(in.elem(a[0]), in.elem(a[1])) })
	F("Negate", func(in *Interp, fr *Frame, a []Value) Value {
		x := in.elem(a[0])
		if x.C != nil {
			r := new(big.Int).Neg(x.C)
			return set(in, a[0], &ElemV{C: r.Mod(r, curveP), Field: true})
		}
		return set(in, a[0], in.freshElem(true, "fneg"))
	})
	F("Normalize", func(in *Interp, fr *Frame, a []Value) Value { in.elem(a[0]); return a[0] })
	F("Bytes", func(in *Interp, fr *Frame, a []Value) Value {
		arr := in.elemBytesArr(in.elem(a[0]))
		c := in.newCell(types.NewArray(types.Typ[types.Uint8], 32), arr)
		return PtrV{C: c}
	})

	// JacobianPoint methods / functions
	intrinsics["(*"+dcrPkg+"JacobianPoint).Set"] = func(in *Interp, fr *Frame, a []Value) Value {
		x, y, z, _ := in.loadJac(a[1])
		in.load(a[0].(PtrV))
		in.storeJac(a[0].(PtrV), x, y, z)
		return nil
	}
	intrinsics["(*"+dcrPkg+"JacobianPoint).ToAffine"] = func(in *Interp, fr *Frame, a []Value) Value {
		x, y, z, p := in.loadJac(a[0])
		if j, ok := jacConcrete(x, y, z); ok {
			j.ToAffine()
			in.storeJacConcrete(p, j)
			return nil
		}
		// opaque: representation may change, value does not; keep coordinates opaque but stable:
		// affine form of an opaque point is itself (idempotent)
		return nil
	}
	intrinsics[dcrPkg+"AddNonConst"] = func(in *Interp, fr *Frame, a []Value) Value {
		x1, y1, z1, _ := in.loadJac(a[0])
		x2, y2, z2, _ := in.loadJac(a[1])
		out := a[2].(PtrV)
		in.load(out)
		j1, ok1 := jacConcrete(x1, y1, z1)
		j2, ok2 := jacConcrete(x2, y2, z2)
		if ok1 && ok2 {
			var r secp256k1.JacobianPoint
			secp256k1.AddNonConst(j1, j2, &r)
			in.storeJacConcrete(out, &r)
			return nil
		}
		in.storeJacOpaque(out, "padd")
		return nil
	}
	intrinsics[dcrPkg+"ScalarMultNonConst"] = func(in *Interp, fr *Frame, a []Value) Value {
		k := in.elem(a[0])
		x, y, z, _ := in.loadJac(a[1])
		out := a[2].(PtrV)
		in.load(out)
		if j, ok := jacConcrete(x, y, z); ok && k.C != nil {
			var r secp256k1.JacobianPoint
			secp256k1.ScalarMultNonConst(toModN(k.C), j, &r)
			in.storeJacConcrete(out, &r)
			return nil
		}
		in.storeJacOpaque(out, "pmul")
		return nil
	}
	intrinsics[dcrPkg+"ScalarBaseMultNonConst"] = func(in *Interp, fr *Frame, a []Value) Value {
		k := in.elem(a[0])
		out := a[1].(PtrV)
		in.load(out)
		if k.C != nil {
			var r secp256k1.JacobianPoint
			secp256k1.ScalarBaseMultNonConst(toModN(k.C), &r)
			in.storeJacConcrete(out, &r)
			return nil
		}
		if k.B != nil {
			// k*G for a scalar given by (symbolic) bytes: the x coordinate is an injective function of those bytes
			// (up to the sign of k), modelled with the collision-free function model
			app := in.hashApply("scalarbasemult-x", nil, k.B)
			xb := make([]*Term, 32)
			for i := range xb {
				xb[i] = app.outByte(in, i)
			}
			// coordinates are functions of the scalar: the same scalar bytes give the same symbols (and parity)
			x := &ElemV{Sym: fmt.Sprintf("pbase.X(app%d)", app.id), Field: true, B: xb}
			y := &ElemV{Sym: fmt.Sprintf("pbase.Y(app%d)", app.id), Field: true,
				Par: Eq(Extract(app.outByte(in, 32), 0, 0), BVConst64(1, 1))}
			in.storeJac(out, x, y, &ElemV{C: big.NewInt(1), Field: true})
			return nil
		}
		in.storeJacOpaque(out, "pbase")
		return nil
	}
	intrinsics[dcrPkg+"DecompressY"] = func(in *Interp, fr *Frame, a []Value) Value {
		x := in.elem(a[0])
		odd := a[1].(*Term)
		in.elem(a[2])
		if x.C != nil && odd.IsConst() {
			var y secp256k1.FieldVal
			ok := secp256k1.DecompressY(toFieldVal(x.C), odd.IsTrue(), &y)
			if ok {
				in.store(a[2].(PtrV), &ElemV{C: fromFieldVal(&y), Field: true})
			}
			return BoolConst(ok)
		}
		// symbolic x: on-curve is an opaque predicate of x; y an opaque function of (x, odd)
		e := in.freshElem(true, "decompressY")
		in.store(a[2].(PtrV), e)
		return Var("oncurve("+x.key()+")", BoolSort)
	}
}

// elemBytesArr returns the 32-byte big-endian encoding as a [32]byte array value.
func (in *Interp) elemBytesArr(x *ElemV) Value {
	e := make([]Value, 32)
	if x.C != nil {
		b := make([]byte, 32)
		x.C.FillBytes(b)
		for i := range e {
			e[i] = BVConst64(uint64(b[i]), 8)
		}
		return &ArrV{e}
	}
	if x.B != nil {
		// value decoded from bytes and in range: encoding returns the same bytes
		for i := range e {
			e[i] = x.B[i]
		}
		return &ArrV{e}
	}
	for i := range e {
		e[i] = Var(fmt.Sprintf("bytes(%s)[%d]", x.Sym, i), BV(8))
	}
	return &ArrV{e}
}
