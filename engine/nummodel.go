package main

// Model of saferith.Nat / saferith.Int / saferith.Modulus / math/big.Int.
// A value is either concrete (exact big-integer semantics) or symbolic (an SMT Int term, "Z" interpretation).

import (
	"fmt"
	"go/types"
	"math/big"
)

const sfPkg = "github.com/cronokirby/saferith."

type NumV struct {
	C   *big.Int // concrete value (signed), nil if symbolic
	T   *Term    // symbolic value (Int sort)
	Ann int      // announced length in bits (saferith); for symbolic values an upper bound chosen at creation
	B   []*Term  // source bytes when the value was read from (symbolic) big-endian bytes
	Plain *Term  // ideal-Paillier mode: the plaintext carried by a ciphertext
}

func (*NumV) ModelName() string { return "num" }

func (n *NumV) EqModel(in *Interp, o Value) *Term {
	m, ok := o.(*NumV)
	if !ok {
		return False
	}
	return Eq(n.term(), m.term())
}

func (n *NumV) SnapModel(in *Interp) *Snap { return &Snap{Kind: "term", T: n.term()} }

func concNum(v *big.Int) *NumV { return &NumV{C: new(big.Int).Set(v), Ann: v.BitLen()} }
func symNum(t *Term, ann int) *NumV {
	if t.IsConst() {
		return &NumV{C: new(big.Int).Set(t.C), Ann: ann}
	}
	return &NumV{T: t, Ann: ann}
}
func (n *NumV) term() *Term {
	if n.C != nil {
		return IntConst(n.C)
	}
	return n.T
}
func (n *NumV) conc() bool { return n.C != nil }

func init() {
	z := func(in *Interp) Value { return &NumV{C: new(big.Int)} }
	modelZero[sfPkg+"Nat"] = z
	modelZero[sfPkg+"Int"] = z
	modelZero[sfPkg+"Modulus"] = z
	modelZero["math/big.Int"] = z
}

// num loads the numeric model behind a pointer argument; nil pointers panic like the real code would.
func (in *Interp) num(v Value) *NumV {
	p, ok := v.(PtrV)
	if !ok {
		in.fail("num: not a pointer: %T", v)
	}
	x := in.load(p)
	n, ok := x.(*NumV)
	if !ok {
		in.fail("num: pointer to %T", x)
	}
	return n
}

func (in *Interp) setNum(dst Value, n *NumV) Value {
	in.store(dst.(PtrV), n)
	return dst
}

func (in *Interp) newNumPtr(typeName string, n *NumV) Value {
	pkg, name := "github.com/cronokirby/saferith", typeName
	if typeName == "big.Int" {
		pkg, name = "math/big", "Int"
	}
	c := in.newCell(in.namedType(pkg, name), n)
	return PtrV{C: c}
}

func capMod(v *big.Int, capBits int) *big.Int {
	if capBits < 0 {
		return v
	}
	m := new(big.Int).Lsh(big.NewInt(1), uint(capBits))
	return new(big.Int).Mod(v, m)
}

func choice(b *Term) *Term { return Ite(b, BVConst64(1, 64), BVConst64(0, 64)) }
func choiceBool(v Value) *Term {
	return Neq(v.(*Term), BVConst64(0, v.(*Term).S.W))
}

func intArg(v Value) int { return int(v.(*Term).Int64()) }

func pow2(n int) *Term { return IntConst(new(big.Int).Lsh(big.NewInt(1), uint(n))) }

// symbolic helpers
func (in *Interp) numUF(name string, ann int, args ...*NumV) *NumV {
	ts := make([]*Term, len(args))
	for i, a := range args {
		ts[i] = a.term()
	}
	in.stubsSeen["num-model:UF "+name] = true
	r := App(name, IntSort, ts...)
	if name == "modexp" || name == "modexpi" || name == "modinv" || name == "modmul" {
		// results of modular operations are residues of the modulus (last argument)
		m := ts[len(ts)-1]
		in.assumeAxiom(And(Le(IntConstI(0), r), Lt(r, m)))
	}
	return symNum(r, ann)
}

func maxInt(a, b int) int {
	if a > b {
		return a
	}
	return b
}

// symTrueLen: the bit length of a symbolic integer as a BV64 term, exact with respect to comparisons against the
// thresholds 256k and 256k+1 (k <= 20) and 1793, which are the only ones the repository compares against.
func (in *Interp) symTrueLen(n *NumV) *Term {
	k, _ := in.misc["tlSeq"].(int)
	in.misc["tlSeq"] = k + 1
	tl := Var(fmt.Sprintf("truelen#%d", k), BV(64))
	abs := Ite(Lt(n.T, IntConstI(0)), Neg(n.T), n.T)
	in.assumeAxiom(And(BVSle(i64(0), tl), BVSle(tl, i64(int64(n.Ann)+1))))
	ths := []int{1793}
	for j := 0; j <= 20; j++ {
		ths = append(ths, 256*j, 256*j+1)
	}
	for _, t := range ths {
		in.assumeAxiom(Eq(BVSle(tl, i64(int64(t))), Lt(abs, pow2(t))))
	}
	in.stubsSeen["num-model:TrueLen(symbolic) exact at thresholds 256k, 256k+1, 1793"] = true
	return tl
}

func (in *Interp) natFromBytes(bs []*Term, name string) *NumV {
	if cb, ok := allConstBytes(bs); ok {
		return &NumV{C: new(big.Int).SetBytes(cb), Ann: 8 * len(bs)}
	}
	// symbolic bytes: exact big-endian value as an Int term over byte-valued Int variables would mix theories;
	// the model uses sum of bv2nat(byte_i)*256^k
	var t *Term = IntConstI(0)
	for i, b := range bs {
		sh := uint(8 * (len(bs) - 1 - i))
		bi := mk("bv2nat", IntSort, b)
		if b.IsConst() {
			bi = IntConst(b.C)
		}
		t = Add(t, Mul(bi, IntConst(new(big.Int).Lsh(big.NewInt(1), sh))))
	}
	r := symNum(t, 8*len(bs))
	r.B = append([]*Term{}, bs...)
	return r
}

func (in *Interp) numBytes(n *NumV, length int) []*Term {
	out := make([]*Term, length)
	if !n.conc() && n.B != nil && len(n.B) == length {
		return append([]*Term{}, n.B...)
	}
	if n.conc() {
		b := new(big.Int).Abs(n.C).Bytes()
		for i := range out {
			out[i] = BVConst64(0, 8)
		}
		for i := 0; i < len(b) && i < length; i++ {
			out[length-1-i] = BVConst64(uint64(b[len(b)-1-i]), 8)
		}
		return out
	}
	// symbolic: bytes are ((x div 256^k) mod 256) converted to BV8
	for i := range out {
		sh := uint(8 * (length - 1 - i))
		d := IntMod(IntDiv(n.T, IntConst(new(big.Int).Lsh(big.NewInt(1), sh))), IntConstI(256))
		out[i] = mk("(_ int2bv 8)", BV(8), d)
	}
	return out
}

func init() {
	N := func(name string, f Intrinsic) { intrinsics["(*"+sfPkg+"Nat)."+name] = f }
	I := func(name string, f Intrinsic) { intrinsics["(*"+sfPkg+"Int)."+name] = f }
	M := func(name string, f Intrinsic) { intrinsics["(*"+sfPkg+"Modulus)."+name] = f }
	B := func(name string, f Intrinsic) { intrinsics["(*math/big.Int)."+name] = f }

	bin := func(in *Interp, x, y *NumV, capBits int, fc func(a, b *big.Int) *big.Int, ft func(a, b *Term) *Term) *NumV {
		ann := capBits
		if x.conc() && y.conc() {
			r := capMod(fc(x.C, y.C), capBits)
			if ann < 0 {
				ann = r.BitLen()
			}
			return &NumV{C: r, Ann: ann}
		}
		t := ft(x.term(), y.term())
		if capBits >= 0 {
			t = IntMod(t, pow2(capBits))
		} else {
			ann = x.Ann + y.Ann + 1
		}
		return symNum(t, ann)
	}
	// ---- Nat
	N("SetUint64", func(in *Interp, fr *Frame, a []Value) Value {
		t := a[1].(*Term)
		if t.IsConst() {
			return in.setNum(a[0], &NumV{C: new(big.Int).Set(t.C), Ann: 64})
		}
		return in.setNum(a[0], symNum(mk("bv2nat", IntSort, t), 64))
	})
	N("SetNat", func(in *Interp, fr *Frame, a []Value) Value { n := in.num(a[1]); in.num(a[0]); return in.setNum(a[0], n) })
	N("SetBytes", func(in *Interp, fr *Frame, a []Value) Value {
		in.num(a[0])
		var bs []*Term
		if s := a[1].(SliceV); s.C != nil {
			bs = in.bytesOf(s)
		}
		return in.setNum(a[0], in.natFromBytes(bs, "nat"))
	})
	N("UnmarshalBinary", func(in *Interp, fr *Frame, a []Value) Value {
		in.num(a[0])
		var bs []*Term
		if s := a[1].(SliceV); s.C != nil {
			bs = in.bytesOf(s)
		}
		in.setNum(a[0], in.natFromBytes(bs, "nat"))
		return nilErr
	})
	N("SetHex", func(in *Interp, fr *Frame, a []Value) Value {
		s, ok := a[1].(StrV).goString()
		if !ok {
			in.fail("SetHex on symbolic string")
		}
		v, ok := new(big.Int).SetString(s, 16)
		if !ok {
			return tup(PtrV{}, in.mkError("invalid hex", nil))
		}
		in.setNum(a[0], &NumV{C: v, Ann: 4 * len(s)})
		return tup(a[0], nilErr)
	})
	N("SetBig", func(in *Interp, fr *Frame, a []Value) Value {
		n := in.num(a[1])
		sz := intArg(a[2])
		if n.conc() {
			return in.setNum(a[0], &NumV{C: capMod(new(big.Int).Abs(n.C), sz), Ann: sz})
		}
		return in.setNum(a[0], symNum(IntMod(n.T, pow2(sz)), sz))
	})
	N("Big", func(in *Interp, fr *Frame, a []Value) Value { return in.newNumPtr("big.Int", in.num(a[0])) })
	N("Clone", func(in *Interp, fr *Frame, a []Value) Value { return in.newNumPtr("Nat", in.num(a[0])) })
	N("Resize", func(in *Interp, fr *Frame, a []Value) Value {
		n := in.num(a[0])
		c := intArg(a[1])
		if n.conc() {
			return in.setNum(a[0], &NumV{C: capMod(n.C, c), Ann: c})
		}
		return in.setNum(a[0], symNum(IntMod(n.T, pow2(c)), c))
	})
	N("AnnouncedLen", func(in *Interp, fr *Frame, a []Value) Value { return i64(int64(in.num(a[0]).Ann)) })
	N("TrueLen", func(in *Interp, fr *Frame, a []Value) Value {
		n := in.num(a[0])
		if n.conc() {
			return i64(int64(n.C.BitLen()))
		}
		return in.symTrueLen(n)
	})
	N("Bytes", func(in *Interp, fr *Frame, a []Value) Value {
		n := in.num(a[0])
		return in.byteSlice(in.numBytes(n, (n.Ann+7)/8))
	})
	N("MarshalBinary", func(in *Interp, fr *Frame, a []Value) Value {
		n := in.num(a[0])
		return tup(in.byteSlice(in.numBytes(n, (n.Ann+7)/8)), nilErr)
	})
	N("FillBytes", func(in *Interp, fr *Frame, a []Value) Value {
		n := in.num(a[0])
		dst := a[1].(SliceV)
		bs := in.numBytes(n, dst.Len)
		for i, b := range bs {
			in.store(PtrV{dst.C, extPath(dst.Path, dst.Off+i)}, b)
		}
		return dst
	})
	N("Byte", func(in *Interp, fr *Frame, a []Value) Value {
		n := in.num(a[0])
		i := intArg(a[1])
		if i < 0 {
			in.goPanicf("negative byte")
		}
		bs := in.numBytes(n, i+1)
		return bs[0]
	})
	N("Hex", func(in *Interp, fr *Frame, a []Value) Value {
		n := in.num(a[0])
		if n.conc() {
			return concStr(fmt.Sprintf("%X", n.C))
		}
		return concStr("<symbolic>")
	})
	N("String", intrinsics["(*"+sfPkg+"Nat).Hex"])
	N("Uint64", func(in *Interp, fr *Frame, a []Value) Value {
		n := in.num(a[0])
		if n.conc() {
			return BVConst(n.C, 64)
		}
		return mk("(_ int2bv 64)", BV(64), n.T)
	})
	N("Add", func(in *Interp, fr *Frame, a []Value) Value {
		in.num(a[0])
		return in.setNum(a[0], bin(in, in.num(a[1]), in.num(a[2]), intArg(a[3]), func(x, y *big.Int) *big.Int { return new(big.Int).Add(x, y) }, Add))
	})
	N("Sub", func(in *Interp, fr *Frame, a []Value) Value {
		in.num(a[0])
		x, y := in.num(a[1]), in.num(a[2])
		c := intArg(a[3])
		if c < 0 {
			c = maxInt(x.Ann, y.Ann)
		}
		// Nat subtraction wraps modulo 2^cap
		return in.setNum(a[0], bin(in, x, y, c, func(x, y *big.Int) *big.Int { return new(big.Int).Sub(x, y) }, Sub))
	})
	N("Mul", func(in *Interp, fr *Frame, a []Value) Value {
		in.num(a[0])
		return in.setNum(a[0], bin(in, in.num(a[1]), in.num(a[2]), intArg(a[3]), func(x, y *big.Int) *big.Int { return new(big.Int).Mul(x, y) }, Mul))
	})
	N("Rsh", func(in *Interp, fr *Frame, a []Value) Value {
		in.num(a[0])
		x := in.num(a[1])
		sh := uint(a[2].(*Term).Uint64())
		c := intArg(a[3])
		if x.conc() {
			r := capMod(new(big.Int).Rsh(x.C, sh), c)
			ann := c
			if ann < 0 {
				ann = maxInt(x.Ann-int(sh), 0)
			}
			return in.setNum(a[0], &NumV{C: r, Ann: ann})
		}
		t := IntDiv(x.T, pow2(int(sh)))
		ann := maxInt(x.Ann-int(sh), 0)
		if c >= 0 {
			t = IntMod(t, pow2(c))
			ann = c
		}
		return in.setNum(a[0], symNum(t, ann))
	})
	N("Lsh", func(in *Interp, fr *Frame, a []Value) Value {
		in.num(a[0])
		x := in.num(a[1])
		sh := uint(a[2].(*Term).Uint64())
		c := intArg(a[3])
		if x.conc() {
			r := capMod(new(big.Int).Lsh(x.C, sh), c)
			ann := c
			if ann < 0 {
				ann = x.Ann + int(sh)
			}
			return in.setNum(a[0], &NumV{C: r, Ann: ann})
		}
		t := Mul(x.T, pow2(int(sh)))
		ann := x.Ann + int(sh)
		if c >= 0 {
			t = IntMod(t, pow2(c))
			ann = c
		}
		return in.setNum(a[0], symNum(t, ann))
	})
	modOp := func(in *Interp, x *NumV, m *NumV) *NumV {
		if m.conc() && m.C.Sign() == 0 {
			in.goPanicf("saferith: modulus is zero (division by zero)")
		}
		if x.conc() && m.conc() {
			return &NumV{C: new(big.Int).Mod(x.C, m.C), Ann: m.Ann}
		}
		if !x.conc() && x.B != nil {
			// already reduced (e.g. after a CmpMod rejection loop)? then the value, and its byte source, is unchanged
			if in.param("assumereduced", 0) == 1 && m.conc() && m.C.BitLen() >= 250 {
				// genericity (not asserted to the solver): a 256-bit digest is below the group order
				// (fails with probability < 2^-127); the value and its byte source are unchanged by the reduction
				in.stubsSeen["genericity: digest-derived scalars are below the group order"] = true
				return &NumV{T: x.T, Ann: x.Ann, B: x.B}
			}
		}
		return symNum(IntMod(x.term(), m.term()), m.Ann)
	}
	N("Mod", func(in *Interp, fr *Frame, a []Value) Value {
		in.num(a[0])
		return in.setNum(a[0], modOp(in, in.num(a[1]), in.num(a[2])))
	})
	N("Div", func(in *Interp, fr *Frame, a []Value) Value {
		in.num(a[0])
		x, m := in.num(a[1]), in.num(a[2])
		c := intArg(a[3])
		if x.conc() && m.conc() {
			if m.C.Sign() == 0 {
				in.goPanicf("saferith: division by zero modulus")
			}
			r := capMod(new(big.Int).Div(x.C, m.C), c)
			return in.setNum(a[0], &NumV{C: r, Ann: maxInt(c, r.BitLen())})
		}
		t := IntDiv(x.term(), m.term())
		ann := x.Ann
		if c >= 0 {
			t = IntMod(t, pow2(c))
			ann = c
		}
		return in.setNum(a[0], symNum(t, ann))
	})
	modBin := func(fc func(a, b, m *big.Int) *big.Int, ft func(a, b *Term) *Term, ufName string) Intrinsic {
		return func(in *Interp, fr *Frame, a []Value) Value {
			in.num(a[0])
			x, y, m := in.num(a[1]), in.num(a[2]), in.num(a[3])
			if m.conc() && m.C.Sign() == 0 {
				in.goPanicf("saferith: modulus is zero")
			}
			if x.conc() && y.conc() && m.conc() {
				return in.setNum(a[0], &NumV{C: fc(x.C, y.C, m.C), Ann: m.Ann})
			}
			if ufName != "" && !x.conc() && !y.conc() && in.param("ufmodmul", 0) == 1 {
				// product of two symbolic residues: an uninterpreted function with the range axiom. Over-approximates the
				// real operation (sound for unsat verdicts) and keeps satisfiable queries out of nonlinear arithmetic.
				return in.setNum(a[0], in.numUF(ufName, m.Ann, x, y, m))
			}
			return in.setNum(a[0], symNum(IntMod(ft(x.term(), y.term()), m.term()), m.Ann))
		}
	}
	N("ModAdd", modBin(func(a, b, m *big.Int) *big.Int { r := new(big.Int).Add(a, b); return r.Mod(r, m) }, Add, ""))
	N("ModSub", modBin(func(a, b, m *big.Int) *big.Int { r := new(big.Int).Sub(a, b); return r.Mod(r, m) }, Sub, ""))
	N("ModMul", modBin(func(a, b, m *big.Int) *big.Int { r := new(big.Int).Mul(a, b); return r.Mod(r, m) }, Mul, "modmul"))
	N("ModNeg", func(in *Interp, fr *Frame, a []Value) Value {
		in.num(a[0])
		x, m := in.num(a[1]), in.num(a[2])
		if x.conc() && m.conc() {
			if m.C.Sign() == 0 {
				in.goPanicf("saferith: modulus is zero")
			}
			r := new(big.Int).Neg(x.C)
			return in.setNum(a[0], &NumV{C: r.Mod(r, m.C), Ann: m.Ann})
		}
		return in.setNum(a[0], symNum(IntMod(Neg(x.term()), m.term()), m.Ann))
	})
	N("ModInverse", func(in *Interp, fr *Frame, a []Value) Value {
		in.num(a[0])
		x, m := in.num(a[1]), in.num(a[2])
		if x.conc() && m.conc() {
			r := new(big.Int).ModInverse(x.C, m.C)
			if r == nil {
				r = new(big.Int) // saferith returns garbage (documented: undefined) for non-units; model as 0
			}
			return in.setNum(a[0], &NumV{C: r, Ann: m.Ann})
		}
		return in.setNum(a[0], in.numUF("modinv", m.Ann, x, m))
	})
	N("Exp", func(in *Interp, fr *Frame, a []Value) Value {
		in.num(a[0])
		x, e, m := in.num(a[1]), in.num(a[2]), in.num(a[3])
		if m.conc() && m.C.Sign() == 0 {
			in.goPanicf("saferith: modulus is zero")
		}
		if x.conc() && e.conc() && m.conc() {
			return in.setNum(a[0], &NumV{C: new(big.Int).Exp(x.C, e.C, m.C), Ann: m.Ann})
		}
		return in.setNum(a[0], in.numUF("modexp", m.Ann, x, e, m))
	})
	N("ExpI", func(in *Interp, fr *Frame, a []Value) Value {
		in.num(a[0])
		x, e, m := in.num(a[1]), in.num(a[2]), in.num(a[3])
		if x.conc() && e.conc() && m.conc() {
			if m.C.Sign() == 0 {
				in.goPanicf("saferith: modulus is zero")
			}
			r := new(big.Int).Exp(x.C, new(big.Int).Abs(e.C), m.C)
			if e.C.Sign() < 0 {
				inv := new(big.Int).ModInverse(r, m.C)
				if inv == nil {
					inv = new(big.Int)
				}
				r = inv
			}
			return in.setNum(a[0], &NumV{C: r, Ann: m.Ann})
		}
		// as saferith implements it: the positive power, or its modular inverse for a negative exponent
		abs := symNum(Ite(Lt(e.term(), IntConstI(0)), Neg(e.term()), e.term()), e.Ann)
		pos := in.numUF("modexp", m.Ann, x, abs, m)
		inv := in.numUF("modinv", m.Ann, pos, m)
		return in.setNum(a[0], symNum(Ite(Lt(e.term(), IntConstI(0)), inv.term(), pos.term()), m.Ann))
	})
	N("CondAssign", func(in *Interp, fr *Frame, a []Value) Value {
		z, x := in.num(a[0]), in.num(a[2])
		c := choiceBool(a[1])
		if c.IsTrue() {
			return in.setNum(a[0], x)
		}
		if c.IsFalse() {
			return a[0]
		}
		return in.setNum(a[0], symNum(Ite(c, x.term(), z.term()), maxInt(z.Ann, x.Ann)))
	})
	cmp3 := func(in *Interp, x, y *NumV) Value {
		xt, yt := x.term(), y.term()
		return tup(choice(Gt(xt, yt)), choice(Eq(xt, yt)), choice(Lt(xt, yt)))
	}
	N("Cmp", func(in *Interp, fr *Frame, a []Value) Value { return cmp3(in, in.num(a[0]), in.num(a[1])) })
	N("CmpMod", func(in *Interp, fr *Frame, a []Value) Value { return cmp3(in, in.num(a[0]), in.num(a[1])) })
	N("Eq", func(in *Interp, fr *Frame, a []Value) Value { return choice(Eq(in.num(a[0]).term(), in.num(a[1]).term())) })
	N("EqZero", func(in *Interp, fr *Frame, a []Value) Value { return choice(Eq(in.num(a[0]).term(), IntConstI(0))) })
	N("IsUnit", func(in *Interp, fr *Frame, a []Value) Value {
		x, m := in.num(a[0]), in.num(a[1])
		if x.conc() && m.conc() {
			g := new(big.Int).GCD(nil, nil, new(big.Int).Abs(x.C), m.C)
			return choice(BoolConst(g.Cmp(big.NewInt(1)) == 0))
		}
		in.stubsSeen["num-model:UF isunit"] = true
		u := Eq(App("isunit", IntSort, x.term(), m.term()), IntConstI(1))
		// 0 is a unit only modulo 1: a unit of a modulus > 1 is non-zero
		in.assumeAxiom(Implies(And(u, Lt(IntConstI(1), m.term())), Not(Eq(x.term(), IntConstI(0)))))
		return choice(u)
	})
	N("Coprime", func(in *Interp, fr *Frame, a []Value) Value {
		x, y := in.num(a[0]), in.num(a[1])
		if x.conc() && y.conc() {
			g := new(big.Int).GCD(nil, nil, x.C, y.C)
			return choice(BoolConst(g.Cmp(big.NewInt(1)) == 0))
		}
		return choice(Eq(App("isunit", IntSort, x.term(), y.term()), IntConstI(1)))
	})
	// ---- Modulus
	mkMod := func(in *Interp, n *NumV) Value {
		if n.conc() {
			if n.C.Sign() == 0 {
				in.goPanicf("Modulus is empty")
			}
		} else if in.branch(Eq(n.T, IntConstI(0))) {
			in.goPanicf("Modulus is empty")
		}
		return in.newNumPtr("Modulus", n)
	}
	intrinsics[sfPkg+"ModulusFromNat"] = func(in *Interp, fr *Frame, a []Value) Value { return mkMod(in, in.num(a[0])) }
	intrinsics[sfPkg+"ModulusFromBytes"] = func(in *Interp, fr *Frame, a []Value) Value {
		var bs []*Term
		if s := a[0].(SliceV); s.C != nil {
			bs = in.bytesOf(s)
		}
		return mkMod(in, in.natFromBytes(bs, "mod"))
	}
	intrinsics[sfPkg+"ModulusFromUint64"] = func(in *Interp, fr *Frame, a []Value) Value {
		t := a[0].(*Term)
		if !t.IsConst() {
			in.fail("ModulusFromUint64 symbolic")
		}
		return mkMod(in, concNum(t.C))
	}
	M("Nat", func(in *Interp, fr *Frame, a []Value) Value { return in.newNumPtr("Nat", in.num(a[0])) })
	M("Big", func(in *Interp, fr *Frame, a []Value) Value { return in.newNumPtr("big.Int", in.num(a[0])) })
	M("BitLen", func(in *Interp, fr *Frame, a []Value) Value {
		n := in.num(a[0])
		if n.conc() {
			return i64(int64(n.C.BitLen()))
		}
		// the bit length of a modulus is public: fork over plausible values is too wide; use announced length
		in.stubsSeen["num-model:Modulus.BitLen(symbolic)=announced"] = true
		return i64(int64(n.Ann))
	})
	M("Bytes", intrinsics["(*"+sfPkg+"Nat).Bytes"])
	M("MarshalBinary", intrinsics["(*"+sfPkg+"Nat).MarshalBinary"])
	M("UnmarshalBinary", func(in *Interp, fr *Frame, a []Value) Value {
		in.num(a[0])
		var bs []*Term
		if s := a[1].(SliceV); s.C != nil {
			bs = in.bytesOf(s)
		}
		n := in.natFromBytes(bs, "mod")
		if n.conc() {
			if n.C.Sign() == 0 {
				in.goPanicf("Modulus is empty")
			}
		} else if in.branch(Eq(n.T, IntConstI(0))) {
			in.goPanicf("Modulus is empty")
		}
		in.setNum(a[0], n)
		return nilErr
	})
	M("Cmp", func(in *Interp, fr *Frame, a []Value) Value { return cmp3(in, in.num(a[0]), in.num(a[1])) })
	M("Hex", intrinsics["(*"+sfPkg+"Nat).Hex"])
	M("String", intrinsics["(*"+sfPkg+"Nat).Hex"])
	// ---- Int
	I("SetUint64", intrinsics["(*"+sfPkg+"Nat).SetUint64"])
	I("SetNat", func(in *Interp, fr *Frame, a []Value) Value { n := in.num(a[1]); in.num(a[0]); return in.setNum(a[0], n) })
	I("SetInt", func(in *Interp, fr *Frame, a []Value) Value { n := in.num(a[1]); in.num(a[0]); return in.setNum(a[0], n) })
	I("SetBytes", intrinsics["(*"+sfPkg+"Nat).SetBytes"])
	I("SetBig", func(in *Interp, fr *Frame, a []Value) Value {
		n := in.num(a[1])
		in.num(a[0])
		sz := intArg(a[2])
		if n.conc() {
			abs := capMod(new(big.Int).Abs(n.C), sz)
			if n.C.Sign() < 0 {
				abs.Neg(abs)
			}
			return in.setNum(a[0], &NumV{C: abs, Ann: sz})
		}
		return in.setNum(a[0], &NumV{T: n.T, Ann: sz})
	})
	I("Big", func(in *Interp, fr *Frame, a []Value) Value { return in.newNumPtr("big.Int", in.num(a[0])) })
	I("Clone", func(in *Interp, fr *Frame, a []Value) Value { return in.newNumPtr("Int", in.num(a[0])) })
	I("Resize", func(in *Interp, fr *Frame, a []Value) Value {
		n := in.num(a[0])
		c := intArg(a[1])
		if n.conc() {
			abs := capMod(new(big.Int).Abs(n.C), c)
			if n.C.Sign() < 0 {
				abs.Neg(abs)
			}
			return in.setNum(a[0], &NumV{C: abs, Ann: c})
		}
		return in.setNum(a[0], &NumV{T: n.T, Ann: c})
	})
	I("Eq", func(in *Interp, fr *Frame, a []Value) Value { return choice(Eq(in.num(a[0]).term(), in.num(a[1]).term())) })
	I("Abs", func(in *Interp, fr *Frame, a []Value) Value {
		n := in.num(a[0])
		if n.conc() {
			return in.newNumPtr("Nat", &NumV{C: new(big.Int).Abs(n.C), Ann: n.Ann})
		}
		return in.newNumPtr("Nat", symNum(Ite(Lt(n.T, IntConstI(0)), Neg(n.T), n.T), n.Ann))
	})
	I("IsNegative", func(in *Interp, fr *Frame, a []Value) Value { return choice(Lt(in.num(a[0]).term(), IntConstI(0))) })
	I("AnnouncedLen", func(in *Interp, fr *Frame, a []Value) Value { return i64(int64(in.num(a[0]).Ann)) })
	I("TrueLen", func(in *Interp, fr *Frame, a []Value) Value {
		n := in.num(a[0])
		if n.conc() {
			return i64(int64(n.C.BitLen()))
		}
		return in.symTrueLen(n)
	})
	I("Neg", func(in *Interp, fr *Frame, a []Value) Value {
		n := in.num(a[0])
		c := choiceBool(a[1])
		if n.conc() && c.IsConst() {
			if c.IsTrue() {
				return in.setNum(a[0], &NumV{C: new(big.Int).Neg(n.C), Ann: n.Ann})
			}
			return a[0]
		}
		return in.setNum(a[0], symNum(Ite(c, Neg(n.term()), n.term()), n.Ann))
	})
	I("Add", func(in *Interp, fr *Frame, a []Value) Value {
		in.num(a[0])
		x, y := in.num(a[1]), in.num(a[2])
		c := intArg(a[3])
		if x.conc() && y.conc() {
			r := new(big.Int).Add(x.C, y.C)
			if c >= 0 && r.BitLen() > c {
				abs := capMod(new(big.Int).Abs(r), c)
				if r.Sign() < 0 {
					abs.Neg(abs)
				}
				r = abs
			}
			ann := c
			if ann < 0 {
				ann = maxInt(x.Ann, y.Ann) + 1
			}
			return in.setNum(a[0], &NumV{C: r, Ann: ann})
		}
		ann := c
		if ann < 0 {
			ann = maxInt(x.Ann, y.Ann) + 1
		}
		return in.setNum(a[0], symNum(Add(x.term(), y.term()), ann))
	})
	I("Mul", func(in *Interp, fr *Frame, a []Value) Value {
		in.num(a[0])
		x, y := in.num(a[1]), in.num(a[2])
		c := intArg(a[3])
		if x.conc() && y.conc() {
			r := new(big.Int).Mul(x.C, y.C)
			if c >= 0 && r.BitLen() > c {
				abs := capMod(new(big.Int).Abs(r), c)
				if r.Sign() < 0 {
					abs.Neg(abs)
				}
				r = abs
			}
			ann := c
			if ann < 0 {
				ann = x.Ann + y.Ann
			}
			return in.setNum(a[0], &NumV{C: r, Ann: ann})
		}
		ann := c
		if ann < 0 {
			ann = x.Ann + y.Ann
		}
		return in.setNum(a[0], symNum(Mul(x.term(), y.term()), ann))
	})
	I("Mod", func(in *Interp, fr *Frame, a []Value) Value {
		x, m := in.num(a[0]), in.num(a[1])
		return in.newNumPtr("Nat", modOp(in, x, m))
	})
	I("SetModSymmetric", func(in *Interp, fr *Frame, a []Value) Value {
		in.num(a[0])
		x, m := in.num(a[1]), in.num(a[2])
		r := modOp(in, x, m)
		if r.conc() && m.conc() {
			neg := new(big.Int).Sub(m.C, r.C)
			neg.Mod(neg, m.C)
			if neg.Cmp(r.C) <= 0 { // negated <= abs: negative representative
				return in.setNum(a[0], &NumV{C: new(big.Int).Neg(neg), Ann: m.Ann})
			}
			return in.setNum(a[0], &NumV{C: r.C, Ann: m.Ann})
		}
		rt, mt := r.term(), m.term()
		neg := IntMod(Sub(mt, rt), mt)
		return in.setNum(a[0], symNum(Ite(Le(neg, rt), Neg(neg), rt), m.Ann))
	})
	I("CheckInRange", func(in *Interp, fr *Frame, a []Value) Value {
		x, m := in.num(a[0]), in.num(a[1])
		xt, mt := x.term(), m.term()
		abs := Ite(Lt(xt, IntConstI(0)), Neg(xt), xt)
		neg := IntMod(Sub(mt, abs), mt)
		return choice(And(Lt(abs, mt), Not(Lt(neg, abs))))
	})
	I("MarshalBinary", func(in *Interp, fr *Frame, a []Value) Value {
		n := in.num(a[0])
		l := (n.Ann + 7) / 8
		abs := n
		sign := choice(Lt(n.term(), IntConstI(0)))
		if n.conc() {
			abs = &NumV{C: new(big.Int).Abs(n.C), Ann: n.Ann}
		} else {
			abs = symNum(Ite(Lt(n.T, IntConstI(0)), Neg(n.T), n.T), n.Ann)
		}
		bs := append([]*Term{Extract(sign, 7, 0)}, in.numBytes(abs, l)...)
		return tup(in.byteSlice(bs), nilErr)
	})
	I("UnmarshalBinary", func(in *Interp, fr *Frame, a []Value) Value {
		in.num(a[0])
		var bs []*Term
		if s := a[1].(SliceV); s.C != nil {
			bs = in.bytesOf(s)
		}
		if len(bs) == 0 {
			return in.mkError("data must contain a sign byte", nil)
		}
		abs := in.natFromBytes(bs[1:], "int")
		sign := Eq(Extract(bs[0], 0, 0), BVConst64(1, 1))
		if abs.conc() && sign.IsConst() {
			v := new(big.Int).Set(abs.C)
			if sign.IsTrue() {
				v.Neg(v)
			}
			in.setNum(a[0], &NumV{C: v, Ann: abs.Ann})
		} else {
			in.setNum(a[0], symNum(Ite(sign, Neg(abs.term()), abs.term()), abs.Ann))
		}
		return nilErr
	})
	I("String", intrinsics["(*"+sfPkg+"Nat).Hex"])
	// ---- math/big.Int (only what the repository uses)
	intrinsics["math/big.NewInt"] = func(in *Interp, fr *Frame, a []Value) Value {
		t := a[0].(*Term)
		if !t.IsConst() {
			in.fail("big.NewInt symbolic")
		}
		return in.newNumPtr("big.Int", concNum(t.SignedVal()))
	}
	bigBin := func(fc func(a, b *big.Int) *big.Int, ft func(a, b *Term) *Term) Intrinsic {
		return func(in *Interp, fr *Frame, a []Value) Value {
			in.num(a[0])
			x, y := in.num(a[1]), in.num(a[2])
			if x.conc() && y.conc() {
				return in.setNum(a[0], concNum(fc(x.C, y.C)))
			}
			return in.setNum(a[0], symNum(ft(x.term(), y.term()), x.Ann+y.Ann))
		}
	}
	B("Add", bigBin(func(a, b *big.Int) *big.Int { return new(big.Int).Add(a, b) }, Add))
	B("Sub", bigBin(func(a, b *big.Int) *big.Int { return new(big.Int).Sub(a, b) }, Sub))
	B("Mul", bigBin(func(a, b *big.Int) *big.Int { return new(big.Int).Mul(a, b) }, Mul))
	B("Mod", func(in *Interp, fr *Frame, a []Value) Value {
		in.num(a[0])
		x, m := in.num(a[1]), in.num(a[2])
		if m.conc() && m.C.Sign() == 0 {
			in.goPanicf("division by zero")
		}
		if !m.conc() && in.branch(Eq(m.T, IntConstI(0))) {
			in.goPanicf("division by zero")
		}
		if x.conc() && m.conc() {
			return in.setNum(a[0], concNum(new(big.Int).Mod(x.C, m.C)))
		}
		// big.Int.Mod is Euclidean (non-negative result) like SMT-LIB mod for either sign of m
		return in.setNum(a[0], symNum(IntMod(x.term(), m.term()), m.Ann))
	})
	B("Neg", func(in *Interp, fr *Frame, a []Value) Value {
		in.num(a[0])
		x := in.num(a[1])
		if x.conc() {
			return in.setNum(a[0], concNum(new(big.Int).Neg(x.C)))
		}
		return in.setNum(a[0], symNum(Neg(x.T), x.Ann))
	})
	B("Set", func(in *Interp, fr *Frame, a []Value) Value { n := in.num(a[1]); in.num(a[0]); return in.setNum(a[0], n) })
	B("SetUint64", func(in *Interp, fr *Frame, a []Value) Value {
		in.num(a[0])
		t := a[1].(*Term)
		if t.IsConst() {
			return in.setNum(a[0], concNum(t.C))
		}
		return in.setNum(a[0], symNum(mk("bv2nat", IntSort, t), 64))
	})
	B("SetBytes", func(in *Interp, fr *Frame, a []Value) Value {
		in.num(a[0])
		var bs []*Term
		if s := a[1].(SliceV); s.C != nil {
			bs = in.bytesOf(s)
		}
		n := in.natFromBytes(bs, "big")
		if n.conc() {
			n.Ann = n.C.BitLen()
		}
		return in.setNum(a[0], n)
	})
	B("Sign", func(in *Interp, fr *Frame, a []Value) Value {
		x := in.num(a[0])
		if x.conc() {
			return i64(int64(x.C.Sign()))
		}
		return Ite(Lt(x.T, IntConstI(0)), BVConstI(-1, 64), Ite(Eq(x.T, IntConstI(0)), i64(0), i64(1)))
	})
	B("Cmp", func(in *Interp, fr *Frame, a []Value) Value {
		x, y := in.num(a[0]), in.num(a[1])
		xt, yt := x.term(), y.term()
		return Ite(Lt(xt, yt), BVConstI(-1, 64), Ite(Eq(xt, yt), i64(0), i64(1)))
	})
	B("BitLen", func(in *Interp, fr *Frame, a []Value) Value {
		x := in.num(a[0])
		if x.conc() {
			return i64(int64(x.C.BitLen()))
		}
		in.stubsSeen["num-model:big.BitLen(symbolic)=announced"] = true
		return i64(int64(x.Ann))
	})
	B("Bit", func(in *Interp, fr *Frame, a []Value) Value {
		x := in.num(a[0])
		i := intArg(a[1])
		if i < 0 {
			in.goPanicf("negative bit index")
		}
		if x.conc() {
			return BVConst64(uint64(x.C.Bit(i)), 64)
		}
		return Ite(Eq(IntMod(IntDiv(x.T, pow2(i)), IntConstI(2)), IntConstI(1)), BVConst64(1, 64), BVConst64(0, 64))
	})
	B("Uint64", func(in *Interp, fr *Frame, a []Value) Value {
		x := in.num(a[0])
		if x.conc() {
			return BVConst(new(big.Int).Abs(x.C), 64)
		}
		return mk("(_ int2bv 64)", BV(64), x.T)
	})
	B("Rsh", func(in *Interp, fr *Frame, a []Value) Value {
		in.num(a[0])
		x := in.num(a[1])
		sh := uint(a[2].(*Term).Uint64())
		if x.conc() {
			return in.setNum(a[0], concNum(new(big.Int).Rsh(x.C, sh)))
		}
		return in.setNum(a[0], symNum(IntDiv(x.T, pow2(int(sh))), maxInt(x.Ann-int(sh), 0)))
	})
	B("Exp", func(in *Interp, fr *Frame, a []Value) Value {
		in.num(a[0])
		x, e := in.num(a[1]), in.num(a[2])
		var m *NumV
		if p, ok := a[3].(PtrV); ok && p.C != nil {
			m = in.num(a[3])
		}
		if x.conc() && e.conc() && (m == nil || m.conc()) {
			var mc *big.Int
			if m != nil {
				mc = m.C
			}
			return in.setNum(a[0], concNum(new(big.Int).Exp(x.C, e.C, mc)))
		}
		if m == nil {
			in.fail("big.Exp symbolic without modulus")
		}
		return in.setNum(a[0], in.numUF("modexp", m.Ann, x, e, m))
	})
	B("GCD", func(in *Interp, fr *Frame, a []Value) Value {
		in.num(a[0])
		x, y := in.num(a[3]), in.num(a[4])
		if x.conc() && y.conc() {
			return in.setNum(a[0], concNum(new(big.Int).GCD(nil, nil, x.C, y.C)))
		}
		return in.setNum(a[0], in.numUF("gcd", maxInt(x.Ann, y.Ann), x, y))
	})
	B("ProbablyPrime", func(in *Interp, fr *Frame, a []Value) Value {
		x := in.num(a[0])
		if x.conc() {
			return BoolConst(x.C.ProbablyPrime(intArg(a[1])))
		}
		in.stubsSeen["num-model:UF isprime"] = true
		return Eq(App("isprime", IntSort, x.T), IntConstI(1))
	})
	B("GobEncode", func(in *Interp, fr *Frame, a []Value) Value {
		p := a[0].(PtrV)
		if p.C == nil {
			return tup(SliceV{}, nilErr)
		}
		x := in.num(a[0])
		// gob: version byte (1<<1 | sign) followed by the magnitude bytes
		l := (x.Ann + 7) / 8
		if x.conc() {
			l = (x.C.BitLen() + 7) / 8
		}
		sign := choice(Lt(x.term(), IntConstI(0)))
		ver := BVOr(BVConst64(2, 8), Extract(sign, 7, 0))
		abs := x
		if x.conc() {
			abs = &NumV{C: new(big.Int).Abs(x.C), Ann: x.Ann}
		} else {
			abs = symNum(Ite(Lt(x.T, IntConstI(0)), Neg(x.T), x.T), x.Ann)
		}
		return tup(in.byteSlice(append([]*Term{ver}, in.numBytes(abs, l)...)), nilErr)
	})
	B("String", func(in *Interp, fr *Frame, a []Value) Value {
		x := in.num(a[0])
		if x.conc() {
			return concStr(x.C.String())
		}
		return concStr("<symbolic>")
	})
	intrinsics["math/big.Jacobi"] = func(in *Interp, fr *Frame, a []Value) Value {
		x, y := in.num(a[0]), in.num(a[1])
		if y.conc() && y.C.Bit(0) == 0 {
			in.goPanicf("big: invalid 2nd argument to Int.Jacobi: need odd integer but got %s", y.C)
		}
		if !y.conc() && in.branch(Eq(IntMod(y.T, IntConstI(2)), IntConstI(0))) {
			in.goPanicf("big: invalid 2nd argument to Int.Jacobi: need odd integer (symbolic)")
		}
		if x.conc() && y.conc() {
			return i64(int64(big.Jacobi(x.C, y.C)))
		}
		in.stubsSeen["num-model:UF jacobi"] = true
		j := App("jacobi", IntSort, x.term(), y.term())
		return Ite(Eq(j, IntConstI(1)), i64(1), Ite(Eq(j, IntConstI(0)), i64(0), BVConstI(-1, 64)))
	}
}

var _ = types.Typ
