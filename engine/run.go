package main

import (
	"encoding/json"
	"flag"
	"fmt"
	"math/big"
	"os"
	"path/filepath"
	"runtime/debug"
	"runtime/pprof"
	"sort"
	"strconv"
	"strings"
	"time"

	"golang.org/x/tools/go/ssa"
)

type PathRecord struct {
	Prefix  []int    `json:"prefix"`
	Outcome string   `json:"outcome"`
	Detail  string   `json:"detail,omitempty"`
	Notes   []string `json:"notes,omitempty"`
}

type RunResult struct {
	Harness      string            `json:"harness"`
	Pkg          string            `json:"pkg"`
	Mode         string            `json:"mode"`
	Params       map[string]int    `json:"params"`
	Paths        int               `json:"paths"`
	PathsOK      int               `json:"paths_completed"`
	PathsPanic   int               `json:"paths_panicked"`
	PathsPruned  int               `json:"paths_pruned"`
	Inconclusive []string          `json:"inconclusive"`
	Obligations  int               `json:"obligations"`
	Discharged   int               `json:"discharged"`
	Violations   []Obligation      `json:"violations"`
	Unknown      []Obligation      `json:"unknown"`
	ByLabel      map[string][2]int `json:"by_label"` // label -> [total, discharged]
	Witnesses    []string          `json:"witnesses"`
	Samples      []PathRecord      `json:"samples"`
	Funcs        []string          `json:"functions_encoded"`
	Stubs        []string          `json:"stubs"`
	Solver       SolverStats       `json:"solver"`
	NRA          SolverStats       `json:"solver_nra"`
	Steps        int               `json:"ssa_steps"`
	WallS        float64           `json:"wall_s"`
	SolverName   string            `json:"solver_name"`
	Genericity   []string          `json:"genericity,omitempty"`
}

func harnessOverlay() map[string]string {
	ov := map[string]string{}
	root := "/verif/harness"
	filepath.Walk(root, func(p string, fi os.FileInfo, err error) error {
		if err != nil || fi.IsDir() || !strings.HasSuffix(p, ".go") {
			return nil
		}
		rel, _ := filepath.Rel(root, p)
		dir, base := filepath.Split(rel)
		ov[repoDir+"/"+dir+"zz_verif_"+base] = p
		return nil
	})
	vs, _ := filepath.Glob("/verif/vsym/*.go")
	for _, f := range vs {
		ov[repoDir+"/internal/vsym/"+filepath.Base(f)] = f
	}
	return ov
}

func cmdRun(args []string) {
	fs := flag.NewFlagSet("run", flag.ExitOnError)
	pkg := fs.String("pkg", "", "package path relative to the module root (e.g. pkg/hash)")
	harn := fs.String("harness", "", "comma separated harness function names")
	mode := fs.String("mode", "", "model mode(s)")
	params := fs.String("params", "", "k=v,k=v")
	out := fs.String("out", "", "result file (json)")
	solverName := fs.String("solver", "z3", "z3|z3-new|cvc5")
	timeout := fs.Int("timeout", 60000, "per-query timeout ms")
	maxPaths := fs.Int("maxpaths", 20000, "")
	maxSteps := fs.Int("maxsteps", 5000000, "")
	maxVisits := fs.Int("unwind", 3000, "per-frame block visit bound")
	panicOK := fs.Bool("panicok", false, "uncaught panics are not violations")
	verbose := fs.Bool("v", false, "")
	wall := fs.Int("wall", 600, "wall clock budget (s) per harness")
	shard := fs.String("shard", "", "i/n: explore only the i-th of n shards of the path space")
	splitDepth := fs.Int("splitdepth", 5, "number of leading decisions that define a shard")
	cpuprof := fs.String("cpuprofile", "", "")
	debug.SetGCPercent(800)
	fs.Parse(args)
	if *cpuprof != "" {
		f, _ := os.Create(*cpuprof)
		pprof.StartCPUProfile(f)
		defer pprof.StopCPUProfile()
	}

	pm := map[string]int{}
	for _, kv := range strings.Split(*params, ",") {
		if kv == "" {
			continue
		}
		p := strings.SplitN(kv, "=", 2)
		v, _ := strconv.Atoi(p[1])
		pm[p[0]] = v
	}
	ld := loadRepo(harnessOverlay(), "verif")
	var target *ssa.Package
	for _, p := range ld.prog.AllPackages() {
		if p.Pkg.Path() == repoMod+"/"+*pkg || (*pkg == "" && p.Pkg.Path() == repoMod) {
			target = p
		}
	}
	if target == nil {
		fmt.Fprintln(os.Stderr, "package not found:", *pkg)
		os.Exit(2)
	}
	var results []*RunResult
	for _, h := range strings.Split(*harn, ",") {
		fn := target.Func(h)
		if fn == nil {
			fmt.Fprintln(os.Stderr, "harness not found:", h)
			os.Exit(2)
		}
		cfg := Config{MaxBlockVisits: *maxVisits, MaxSteps: *maxSteps, MaxPaths: *maxPaths, MaxAlloc: 1 << 20,
			PanicOK: *panicOK, Mode: *mode, Params: pm, Verbose: *verbose}
		if *shard != "" {
			fmt.Sscanf(*shard, "%d/%d", &cfg.ShardI, &cfg.ShardN)
			cfg.SplitDepth = *splitDepth
		}
		r := runHarness(ld.prog, fn, cfg, *solverName, *timeout, time.Duration(*wall)*time.Second)
		r.Pkg = *pkg
		results = append(results, r)
		fmt.Fprintf(os.Stderr, "%s: paths=%d ok=%d panic=%d pruned=%d obligations=%d discharged=%d violations=%d unknown=%d inconclusive=%d solver=%d queries %.1fs wall=%.1fs\n",
			h, r.Paths, r.PathsOK, r.PathsPanic, r.PathsPruned, r.Obligations, r.Discharged, len(r.Violations), len(r.Unknown), len(r.Inconclusive), r.Solver.Queries, r.Solver.Seconds, r.WallS)
		for _, v := range r.Violations {
			fmt.Fprintf(os.Stderr, "  VIOLATED [%s] %s %s\n", v.Kind, v.Label, v.Detail)
		}
		for _, v := range r.Inconclusive {
			fmt.Fprintf(os.Stderr, "  INCONCLUSIVE %s\n", v)
		}
	}
	if *out != "" {
		b, _ := json.MarshalIndent(results, "", " ")
		os.WriteFile(*out, b, 0o644)
	}
}

func runHarness(prog *ssa.Program, fn *ssa.Function, cfg Config, solverName string, timeoutMs int, wall time.Duration) *RunResult {
	t0 := time.Now()
	res := &RunResult{Harness: fn.Name(), Mode: cfg.Mode, Params: cfg.Params, ByLabel: map[string][2]int{}, SolverName: solverName}
	solver := NewSolver(solverName, timeoutMs)
	defer solver.Close()
	nra := NewSolver(solverName, timeoutMs)
	defer nra.Close()
	work := [][]int{{}}
	globalAccessLog, globalLocksetLabel = nil, ""
	funcs := map[string]bool{}
	stubs := map[string]bool{}
	wit := map[string]bool{}
	gen := map[string]bool{}
	inconc := map[string]bool{}
	steps := 0
	for len(work) > 0 {
		if res.Paths >= cfg.MaxPaths {
			inconc[fmt.Sprintf("path budget exhausted (%d), %d prefixes unexplored", cfg.MaxPaths, len(work))] = true
			break
		}
		if time.Since(t0) > wall {
			inconc[fmt.Sprintf("wall budget exhausted (%s), %d prefixes unexplored", wall, len(work))] = true
			break
		}
		prefix := work[len(work)-1]
		work = work[:len(work)-1]
		if cfg.ShardN > 1 && len(prefix) >= cfg.SplitDepth && shardOf(prefix[:cfg.SplitDepth], cfg.ShardN) != cfg.ShardI {
			continue
		}
		in := newInterp(prog, cfg, solver, nra)
		in.curHarness = fn.Name()
		in.prefix = prefix
		rec := in.runPath(fn)
		work = append(work, in.pending...)
		if cfg.ShardN > 1 {
			d := cfg.SplitDepth
			if len(in.trace) < d {
				d = len(in.trace)
			}
			if shardOf(in.trace[:d], cfg.ShardN) != cfg.ShardI {
				continue // another shard records this path
			}
		}
		res.Paths++
		steps += in.steps
		for k := range in.funcsSeen {
			funcs[k] = true
		}
		for k := range in.stubsSeen {
			stubs[k] = true
		}
		for k := range in.witnesses {
			wit[k] = true
		}
		if in.field != nil {
			for _, g := range in.field.genericityList() {
				gen[g] = true
			}
		}
		switch {
		case rec.Outcome == "ok":
			res.PathsOK++
		case rec.Outcome == "panic":
			res.PathsPanic++
		case rec.Outcome == "pruned":
			res.PathsPruned++
		default:
			inconc[rec.Outcome+": "+rec.Detail] = true
		}
		for _, ob := range in.obligations {
			res.Obligations++
			bl := res.ByLabel[ob.Label]
			bl[0]++
			switch ob.Verdict {
			case "discharged":
				res.Discharged++
				bl[1]++
			case "violated":
				if len(res.Violations) < 200 {
					res.Violations = append(res.Violations, ob)
				}
			default:
				if len(res.Unknown) < 50 {
					res.Unknown = append(res.Unknown, ob)
				}
			}
			res.ByLabel[ob.Label] = bl
		}
		if len(res.Samples) < 6 || (rec.Outcome != "ok" && rec.Outcome != "pruned" && len(res.Samples) < 40) {
			res.Samples = append(res.Samples, rec)
		}
	}
	if globalLocksetLabel != "" {
		vs := locksetViolations()
		res.Obligations++
		bl := res.ByLabel[globalLocksetLabel]
		bl[0]++
		if len(vs) == 0 {
			res.Discharged++
			bl[1]++
		}
		res.ByLabel[globalLocksetLabel] = bl
		for _, v := range vs {
			res.Violations = append(res.Violations, Obligation{Harness: fn.Name(), Label: globalLocksetLabel + ": " + shortField(v), Kind: "lockset", Verdict: "violated", Detail: v})
		}
	}
	res.Steps = steps
	res.Funcs = sortedKeys(funcs)
	res.Stubs = sortedKeys(stubs)
	res.Witnesses = sortedKeys(wit)
	res.Inconclusive = sortedKeys(inconc)
	res.Genericity = sortedKeys(gen)
	res.Solver = solver.Stats
	res.NRA = nra.Stats
	res.WallS = time.Since(t0).Seconds()
	return res
}

func shardOf(p []int, n int) int {
	h := uint32(2166136261)
	for _, x := range p {
		h ^= uint32(x + 1)
		h *= 16777619
	}
	return int(h % uint32(n))
}

func sortedKeys(m map[string]bool) []string {
	out := []string{}
	for k := range m {
		out = append(out, k)
	}
	sort.Strings(out)
	return out
}

func newInterp(prog *ssa.Program, cfg Config, solver, nra *Solver) *Interp {
	return &Interp{prog: prog, cfg: cfg, solver: solver, nra: nra,
		globals: map[*ssa.Global]*Cell{}, initDone: map[*ssa.Package]bool{}, symNames: map[string]int{},
		witnesses: map[string]bool{}, funcsSeen: map[string]bool{}, stubsSeen: map[string]bool{},
		strIntern: map[string]Value{}, misc: map[string]interface{}{}, constCache: map[*ssa.Const]Value{}}
}

// runPath executes the harness once under in.prefix.
func (in *Interp) runPath(fn *ssa.Function) (rec PathRecord) {
	rec.Prefix = append([]int{}, in.prefix...)
	in.solver.Reset()
	defer func() {
		rec.Notes = in.pathNotes
		if r := recover(); r != nil {
			switch e := r.(type) {
			case pathEnd:
				if strings.HasPrefix(e.Why, "unwind") || strings.HasPrefix(e.Why, "step budget") || strings.HasPrefix(e.Why, "bound") {
					rec.Outcome = "bound-exceeded"
					rec.Detail = e.Why
				} else {
					rec.Outcome = "pruned"
					rec.Detail = e.Why
				}
			case engineError:
				rec.Outcome = "engine-error"
				rec.Detail = e.Msg
			case *goPanic:
				rec.Outcome = "panic"
				rec.Detail = e.Msg + " at " + e.Pos
				if !in.cfg.PanicOK {
					in.reportPanic(e)
				}
			default:
				panic(r)
			}
		}
	}()
	in.callFunction(fn, nil, nil)
	rec.Outcome = "ok"
	return
}

func (in *Interp) reportPanic(e *goPanic) {
	ob := Obligation{Harness: in.curHarness, Label: "no panic: " + e.Msg, Kind: "nopanic", Detail: "at " + e.Pos}
	var m map[string]*big.Int
	r, m := in.solver.CheckModel(in.symVars)
	switch r {
	case Sat:
		ob.Verdict = "violated"
		ob.Model = in.modelStrings(m)
		ob.Path = append([]int{}, in.trace...)
	case Unsat:
		ob.Verdict = "discharged"
		ob.Detail += " (path infeasible)"
	default:
		ob.Verdict = "unknown"
	}
	in.obligations = append(in.obligations, ob)
}
