module gosym

go 1.23

require (
	github.com/decred/dcrd/dcrec/secp256k1/v4 v4.2.0
	github.com/zeebo/blake3 v0.2.3
	golang.org/x/tools v0.29.0
)

require (
	github.com/klauspost/cpuid/v2 v2.2.5 // indirect
	golang.org/x/mod v0.22.0 // indirect
	golang.org/x/sync v0.10.0 // indirect
	golang.org/x/sys v0.29.0 // indirect
)
