package main

// Mode "pailideal": Paillier as an ideal additively homomorphic encryption over Z (contract discharged by the C12
// harnesses on the real pkg/paillier code); mode "zsample": interval samplers return symbolic integers of the exact
// documented range.

import (
	"fmt"
	"math/big"
)

const pailPkg = repoMod + "/pkg/paillier."
const samplePkg = repoMod + "/pkg/math/sample."

func (in *Interp) ctPlain(v Value) (*NumV, PtrV) {
	// v: *Ciphertext -> struct{c *Nat}
	p := v.(PtrV)
	sv := in.load(p).(*StructV)
	cp := sv.F[0].(PtrV)
	n := in.load(cp).(*NumV)
	if n.Plain == nil {
		in.fail("ideal Paillier: ciphertext without plaintext annotation (created outside the model)")
	}
	return n, cp
}

func (in *Interp) newCT(plain *Term) Value {
	k, _ := in.misc["ctSeq"].(int)
	in.misc["ctSeq"] = k + 1
	nat := in.newNumPtr("Nat", &NumV{T: Var(fmt.Sprintf("ct#%d", k), IntSort), Ann: 4096, Plain: plain})
	t := in.namedType(repoMod+"/pkg/paillier", "Ciphertext")
	c := in.newCell(t, &StructV{F: []Value{nat}})
	return PtrV{C: c}
}

func (in *Interp) pkN(pk Value) *Term {
	// PublicKey{n *arith.Modulus, nSquared, nNat *Nat, nPlusOne}
	var sv *StructV
	switch x := pk.(type) {
	case PtrV:
		sv = in.load(x).(*StructV)
	case *StructV:
		sv = x
	}
	return in.num(sv.F[2]).term()
}

func symmod(x, n *Term) *Term {
	r := IntMod(x, n)
	neg := IntMod(Sub(n, r), n)
	return Ite(Le(neg, r), Neg(neg), r)
}

func init() {
	T := map[string]Intrinsic{}
	modeIntrinsics["pailideal"] = T
	enc := func(in *Interp, fr *Frame, a []Value) Value {
		m := in.num(a[1])
		n := in.pkN(a[0])
		half := IntDiv(Sub(n, IntConstI(1)), IntConstI(2))
		abs := Ite(Lt(m.term(), IntConstI(0)), Neg(m.term()), m.term())
		if in.branch(Gt(abs, half)) {
			in.goPanicf("paillier.Encrypt: tried to encrypt message outside of range [-(N-1)/2, …, (N-1)/2]")
		}
		return in.newCT(m.term())
	}
	T["("+pailPkg+"PublicKey).EncWithNonce"] = enc
	T["("+pailPkg+"PublicKey).Enc"] = func(in *Interp, fr *Frame, a []Value) Value {
		ct := enc(in, fr, a)
		k, _ := in.misc["nonceSeq"].(int)
		in.misc["nonceSeq"] = k + 1
		return tup(ct, in.newNumPtr("Nat", &NumV{T: Var(fmt.Sprintf("nonce#%d", k), IntSort), Ann: 2048}))
	}
	T["(*"+pailPkg+"Ciphertext).Add"] = func(in *Interp, fr *Frame, a []Value) Value {
		if p, ok := a[2].(PtrV); ok && p.C == nil {
			return a[0]
		}
		x, xp := in.ctPlain(a[0])
		y, _ := in.ctPlain(a[2])
		k, _ := in.misc["ctSeq"].(int)
		in.misc["ctSeq"] = k + 1
		in.store(xp, &NumV{T: Var(fmt.Sprintf("ct#%d", k), IntSort), Ann: 4096, Plain: Add(x.Plain, y.Plain)})
		return a[0]
	}
	T["(*"+pailPkg+"Ciphertext).Mul"] = func(in *Interp, fr *Frame, a []Value) Value {
		if p, ok := a[2].(PtrV); ok && p.C == nil {
			return a[0]
		}
		x, _ := in.ctPlain(a[0])
		kk := in.num(a[2])
		k, _ := in.misc["ctSeq"].(int)
		in.misc["ctSeq"] = k + 1
		// Mul replaces the Nat pointer (ct.c = ...)
		nat := in.newNumPtr("Nat", &NumV{T: Var(fmt.Sprintf("ct#%d", k), IntSort), Ann: 4096, Plain: Mul(x.Plain, kk.term())})
		in.store(a[0].(PtrV), &StructV{F: []Value{nat}})
		return a[0]
	}
	T["("+pailPkg+"Ciphertext).Clone"] = func(in *Interp, fr *Frame, a []Value) Value {
		sv := a[0].(*StructV)
		n := in.load(sv.F[0].(PtrV)).(*NumV)
		if n.Plain == nil {
			in.fail("ideal Paillier: clone of an unannotated ciphertext")
		}
		return in.newCT(n.Plain)
	}
	T["(*"+pailPkg+"SecretKey).Dec"] = func(in *Interp, fr *Frame, a []Value) Value {
		x, _ := in.ctPlain(a[1])
		sk := in.load(a[0].(PtrV)).(*StructV)
		// SecretKey{*PublicKey, p, q, phi, phiInv}: the embedded public key is field 0
		n := in.pkN(sk.F[0])
		return tup(in.newNumPtr("Int", symNum(symmod(x.Plain, n), 2048)), nilErr)
	}
	T["("+pailPkg+"PublicKey).ValidateCiphertexts"] = func(in *Interp, fr *Frame, a []Value) Value { return True }

	Z := map[string]Intrinsic{}
	modeIntrinsics["zsample"] = Z
	// the real Interval* functions compute their bit length from internal/params and call sampleNeg(rand, bits):
	// only that leaf is replaced, by "an arbitrary integer with |v| < 2^bits" (its documented range)
	Z[samplePkg+"sampleNeg"] = func(in *Interp, fr *Frame, a []Value) Value {
		bits := int(a[1].(*Term).Int64())
		k, _ := in.misc["zsampleSeq"].(int)
		in.misc["zsampleSeq"] = k + 1
		v := in.freshVar(fmt.Sprintf("sample%d_pm2^%d", k, bits), IntSort)
		lim := IntConst(new(big.Int).Lsh(big.NewInt(1), uint(bits)))
		in.assume(And(Lt(Neg(lim), v), Lt(v, lim)))
		return in.newNumPtr("Int", symNum(v, bits))
	}
}
