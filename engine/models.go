package main

// Intrinsic models for library code that is not interpreted.

import (
	"crypto/hmac"
	"crypto/sha256"
	"crypto/sha512"
	"fmt"
	"go/types"
	"math/big"
	"strings"

	"github.com/zeebo/blake3"
	"golang.org/x/tools/go/ssa"
)

var intrinsics = map[string]Intrinsic{}

// modeIntrinsics: extra tables per mode ("field", "shape", "z", ...)
var modeIntrinsics = map[string]map[string]Intrinsic{}

func (in *Interp) lookupIntrinsic(fn *ssa.Function, name string) (Intrinsic, bool) {
	for _, m := range strings.Split(in.cfg.Mode, ",") {
		if t, ok := modeIntrinsics[m]; ok {
			if f, ok := t[name]; ok {
				return f, f != nil
			}
		}
	}
	if f, ok := intrinsics[name]; ok {
		return f, true
	}
	return nil, false
}

func tup(vs ...Value) Value { return TupleV(vs) }

func i64(v int64) *Term { return BVConstI(v, 64) }

var nilErr = IfaceV{}

// ---------------------------------------------------------------- errors, fmt

// ErrV is an opaque error created by the engine (fmt.Errorf etc.).
type ErrV struct {
	Msg  string
	Wrap Value // wrapped error (IfaceV) or nil
}

func (*ErrV) ModelName() string { return "error" }

func (in *Interp) namedType(pkgPath, name string) types.Type {
	for _, p := range in.prog.AllPackages() {
		if p.Pkg.Path() == pkgPath {
			if o := p.Pkg.Scope().Lookup(name); o != nil {
				return o.Type()
			}
		}
	}
	in.fail("type %s.%s not loaded", pkgPath, name)
	return nil
}

func (in *Interp) mkError(msg string, wrap Value) Value {
	// dynamic type: *fmt.wrapError (has Error and Unwrap); the methods are intercepted.
	t := types.NewPointer(in.namedType("fmt", "wrapError"))
	c := in.newCell(in.namedType("fmt", "wrapError"), &ErrV{Msg: msg, Wrap: wrap})
	return IfaceV{T: t, V: PtrV{C: c}}
}

func (in *Interp) fmtValue(v Value) string {
	switch x := in.force(v).(type) {
	case IfaceV:
		if x.T == nil {
			return "<nil>"
		}
		if in.hasMethod(x.T, "Error") {
			r := in.callMethod(x.T, x.V, "Error")
			if s, ok := r.(StrV); ok {
				g, _ := s.goStringPrefix()
				return g
			}
		}
		if in.hasMethod(x.T, "String") && in.param("fmtstringer", 1) == 1 {
			r := in.callMethod(x.T, x.V, "String")
			if s, ok := r.(StrV); ok {
				g, _ := s.goStringPrefix()
				return g
			}
		}
		return in.fmtValue(x.V)
	case *Term:
		if x.IsConst() {
			if x.S.K == SBool {
				return fmt.Sprint(x.IsTrue())
			}
			return x.C.String()
		}
		return "<sym>"
	case StrV:
		g, ok := x.goString()
		if ok {
			return g
		}
		return "<symstr>"
	case SliceV:
		if x.C == nil {
			return "[]"
		}
		es := in.sliceElems(x)
		var parts []string
		for i, e := range es {
			if i > 8 {
				parts = append(parts, "...")
				break
			}
			parts = append(parts, in.fmtValue(e))
		}
		return "[" + strings.Join(parts, " ") + "]"
	case *ErrV:
		return x.Msg
	}
	return showValue(v)
}

func (in *Interp) sprintf(args []Value) string {
	f, _ := args[0].(StrV).goStringPrefix()
	var va []Value
	if len(args) > 1 {
		if s, ok := args[1].(SliceV); ok && s.C != nil {
			va = append(va, in.sliceElems(s)...)
		}
	}
	var sb strings.Builder
	ai := 0
	for i := 0; i < len(f); i++ {
		if f[i] != '%' || i+1 >= len(f) {
			sb.WriteByte(f[i])
			continue
		}
		j := i + 1
		for j < len(f) && strings.ContainsRune("+-# 0123456789.", rune(f[j])) {
			j++
		}
		if j >= len(f) {
			break
		}
		if f[j] == '%' {
			sb.WriteByte('%')
		} else if ai < len(va) {
			sb.WriteString(in.fmtValue(va[ai]))
			ai++
		} else {
			sb.WriteString("%!" + string(f[j]) + "(MISSING)")
		}
		i = j
	}
	return sb.String()
}

func init() {
	intrinsics["fmt.Errorf"] = func(in *Interp, fr *Frame, args []Value) Value {
		f, _ := args[0].(StrV).goStringPrefix()
		var wrap Value
		if strings.Contains(f, "%w") {
			if s, ok := args[1].(SliceV); ok && s.C != nil {
				for _, e := range in.sliceElems(s) {
					if iv, ok := e.(IfaceV); ok && iv.T != nil && in.hasMethod(iv.T, "Error") {
						wrap = iv
					}
				}
			}
		}
		return in.mkError(in.sprintf(args), wrap)
	}
	intrinsics["(*fmt.wrapError).Error"] = func(in *Interp, fr *Frame, args []Value) Value {
		e := in.load(args[0].(PtrV)).(*ErrV)
		return concStr(e.Msg)
	}
	intrinsics["(*fmt.wrapError).Unwrap"] = func(in *Interp, fr *Frame, args []Value) Value {
		e := in.load(args[0].(PtrV)).(*ErrV)
		if e.Wrap == nil {
			return IfaceV{}
		}
		return e.Wrap
	}
	intrinsics["fmt.Sprintf"] = func(in *Interp, fr *Frame, args []Value) Value { return concStr(in.sprintf(args)) }
	intrinsics["fmt.Sprint"] = func(in *Interp, fr *Frame, args []Value) Value {
		var parts []string
		if s, ok := args[0].(SliceV); ok && s.C != nil {
			for _, e := range in.sliceElems(s) {
				parts = append(parts, in.fmtValue(e))
			}
		}
		return concStr(strings.Join(parts, " "))
	}
	noop := func(in *Interp, fr *Frame, args []Value) Value { return nil }
	for _, n := range []string{"fmt.Println", "fmt.Printf", "fmt.Print", "fmt.Fprintf", "fmt.Fprintln", "log.Printf", "log.Println"} {
		intrinsics[n] = func(in *Interp, fr *Frame, args []Value) Value { return tup(i64(0), nilErr) }
	}
	_ = noop
	intrinsics["errors.Is"] = func(in *Interp, fr *Frame, args []Value) Value {
		cur := args[0]
		for k := 0; k < 20; k++ {
			iv, ok := cur.(IfaceV)
			if !ok || iv.T == nil {
				return False
			}
			if in.valEq(iv, args[1]).IsTrue() {
				return True
			}
			if p, ok := iv.V.(PtrV); ok && p.C != nil {
				if e, ok := p.C.V.(*ErrV); ok {
					if e.Wrap == nil {
						return False
					}
					cur = e.Wrap
					continue
				}
			}
			if in.hasMethod(iv.T, "Unwrap") {
				cur = in.callMethod(iv.T, iv.V, "Unwrap")
				continue
			}
			return False
		}
		return False
	}
	// reflect.TypeOf(x).String()
	intrinsics["reflect.TypeOf"] = func(in *Interp, fr *Frame, args []Value) Value {
		iv := args[0].(IfaceV)
		if iv.T == nil {
			return IfaceV{}
		}
		rt := in.namedType("reflect", "rtype")
		c := in.newCell(rt, &typeTok{iv.T})
		return IfaceV{T: types.NewPointer(rt), V: PtrV{C: c}}
	}
	intrinsics["(*reflect.rtype).String"] = func(in *Interp, fr *Frame, args []Value) Value {
		tt := in.load(args[0].(PtrV)).(*typeTok)
		return concStr(types.TypeString(tt.T, func(p *types.Package) string { return p.Name() }))
	}
}

type typeTok struct{ T types.Type }

func (*typeTok) ModelName() string { return "reflect.Type" }

// ---------------------------------------------------------------- bytes.Buffer, binary.Write, bytes.Equal

type BufM struct {
	B  []*Term
	Rd int
}

func (*BufM) ModelName() string { return "bytes.Buffer" }

func init() {
	modelZero["bytes.Buffer"] = func(in *Interp) Value { return &BufM{} }
	buf := func(in *Interp, v Value) (*BufM, PtrV) {
		p := v.(PtrV)
		return in.load(p).(*BufM), p
	}
	wr := func(in *Interp, args []Value, data []*Term) Value {
		b, p := buf(in, args[0])
		nb := make([]*Term, 0, len(b.B)+len(data))
		nb = append(append(nb, b.B...), data...)
		in.store(p, &BufM{B: nb, Rd: b.Rd})
		return tup(i64(int64(len(data))), nilErr)
	}
	intrinsics["(*bytes.Buffer).Write"] = func(in *Interp, fr *Frame, args []Value) Value {
		return wr(in, args, in.bytesOf(args[1]))
	}
	intrinsics["(*bytes.Buffer).WriteString"] = func(in *Interp, fr *Frame, args []Value) Value {
		return wr(in, args, args[1].(StrV).B)
	}
	intrinsics["(*bytes.Buffer).WriteByte"] = func(in *Interp, fr *Frame, args []Value) Value {
		wr(in, args, []*Term{args[1].(*Term)})
		return nilErr
	}
	intrinsics["(*bytes.Buffer).Bytes"] = func(in *Interp, fr *Frame, args []Value) Value {
		b, _ := buf(in, args[0])
		return in.byteSlice(b.B[b.Rd:])
	}
	intrinsics["(*bytes.Buffer).String"] = func(in *Interp, fr *Frame, args []Value) Value {
		b, _ := buf(in, args[0])
		return StrV{b.B[b.Rd:]}
	}
	intrinsics["(*bytes.Buffer).Len"] = func(in *Interp, fr *Frame, args []Value) Value {
		b, _ := buf(in, args[0])
		return i64(int64(len(b.B) - b.Rd))
	}
	intrinsics["(*bytes.Buffer).Reset"] = func(in *Interp, fr *Frame, args []Value) Value {
		_, p := buf(in, args[0])
		in.store(p, &BufM{})
		return nil
	}
	intrinsics["(*bytes.Buffer).Grow"] = func(in *Interp, fr *Frame, args []Value) Value { return nil }
	intrinsics["(*bytes.Buffer).Read"] = func(in *Interp, fr *Frame, args []Value) Value {
		b, p := buf(in, args[0])
		dst := args[1].(SliceV)
		n := len(b.B) - b.Rd
		if n == 0 && dst.Len > 0 {
			return tup(i64(0), in.ioEOF())
		}
		if n > dst.Len {
			n = dst.Len
		}
		for i := 0; i < n; i++ {
			in.store(PtrV{dst.C, extPath(dst.Path, dst.Off+i)}, b.B[b.Rd+i])
		}
		in.store(p, &BufM{B: b.B, Rd: b.Rd + n})
		return tup(i64(int64(n)), nilErr)
	}
	intrinsics["bytes.NewBuffer"] = func(in *Interp, fr *Frame, args []Value) Value {
		var data []*Term
		if s := args[0].(SliceV); s.C != nil {
			data = in.bytesOf(s)
		}
		c := in.newCell(in.namedType("bytes", "Buffer"), &BufM{B: data})
		return PtrV{C: c}
	}
	intrinsics["bytes.NewReader"] = func(in *Interp, fr *Frame, args []Value) Value {
		var data []*Term
		if s := args[0].(SliceV); s.C != nil {
			data = in.bytesOf(s)
		}
		c := in.newCell(in.namedType("bytes", "Reader"), &BufM{B: data})
		return PtrV{C: c}
	}
	modelZero["bytes.Reader"] = func(in *Interp) Value { return &BufM{} }
	intrinsics["(*bytes.Reader).Read"] = intrinsics["(*bytes.Buffer).Read"]
	intrinsics["(*bytes.Reader).Len"] = intrinsics["(*bytes.Buffer).Len"]

	bytesEq := func(in *Interp, fr *Frame, args []Value) Value {
		var a, b []*Term
		if s := args[0].(SliceV); s.C != nil {
			a = in.bytesOf(s)
		}
		if s := args[1].(SliceV); s.C != nil {
			b = in.bytesOf(s)
		}
		if len(a) != len(b) {
			return False
		}
		cs := make([]*Term, len(a))
		for i := range a {
			cs[i] = Eq(a[i], b[i])
		}
		return And(cs...)
	}
	intrinsics["bytes.Equal"] = bytesEq
	intrinsics["crypto/subtle.ConstantTimeCompare"] = func(in *Interp, fr *Frame, args []Value) Value {
		e := bytesEq(in, fr, args).(*Term)
		return Ite(e, i64(1), i64(0))
	}

	// encoding/binary.Write for fixed-size integers
	intrinsics["encoding/binary.Write"] = func(in *Interp, fr *Frame, args []Value) Value {
		w := args[0].(IfaceV)
		order := args[1].(IfaceV)
		data := args[2].(IfaceV)
		t, ok := data.V.(*Term)
		if !ok || t.S.K != SBV {
			in.fail("binary.Write: unsupported data %s", showValue(data.V))
		}
		little := strings.Contains(order.T.String(), "little")
		n := t.S.W / 8
		bs := make([]*Term, n)
		for i := 0; i < n; i++ {
			b := Extract(t, 8*i+7, 8*i) // byte i (little-endian index)
			if little {
				bs[i] = b
			} else {
				bs[n-1-i] = b
			}
		}
		r := in.callMethod(w.T, w.V, "Write", in.byteSlice(bs))
		return r.(TupleV)[1]
	}
}

func (in *Interp) ioEOF() Value {
	for _, p := range in.prog.AllPackages() {
		if p.Pkg.Path() == "io" {
			g := p.Var("EOF")
			return in.load(PtrV{C: in.global(g)})
		}
	}
	in.fail("io.EOF not found")
	return nil
}

// ---------------------------------------------------------------- sync, atomic

type MutexM struct {
	Held   bool
	RCount int
}

func (*MutexM) ModelName() string { return "sync.Mutex" }

type lockEvent struct {
	Kind string // lock/unlock/read/write
	Obj  int
	Fn   string
}

func init() {
	modelZero["sync.Mutex"] = func(in *Interp) Value { return &MutexM{} }
	modelZero["sync.RWMutex"] = func(in *Interp) Value { return &MutexM{} }
	modelZero["sync.Once"] = func(in *Interp) Value { return &MutexM{} }
	modelZero["sync.WaitGroup"] = func(in *Interp) Value { return &MutexM{} }
	lock := func(in *Interp, fr *Frame, args []Value) Value {
		p := args[0].(PtrV)
		m := in.load(p).(*MutexM)
		if m.Held {
			in.goPanicf("DEADLOCK: sync.Mutex.Lock on a mutex already held by this goroutine")
		}
		in.store(p, &MutexM{Held: true})
		in.lockLog = append(in.lockLog, lockEvent{"lock", p.C.ID, ""})
		return nil
	}
	unlock := func(in *Interp, fr *Frame, args []Value) Value {
		p := args[0].(PtrV)
		m := in.load(p).(*MutexM)
		if !m.Held {
			in.goPanicf("fatal error: sync: unlock of unlocked mutex")
		}
		in.store(p, &MutexM{Held: false})
		in.lockLog = append(in.lockLog, lockEvent{"unlock", p.C.ID, ""})
		return nil
	}
	intrinsics["(*sync.Mutex).Lock"] = lock
	intrinsics["(*sync.Mutex).Unlock"] = unlock
	intrinsics["(*sync.RWMutex).Lock"] = lock
	intrinsics["(*sync.RWMutex).Unlock"] = unlock
	intrinsics["(*sync.RWMutex).RLock"] = lock
	intrinsics["(*sync.RWMutex).RUnlock"] = unlock
	intrinsics["(*sync.Once).Do"] = func(in *Interp, fr *Frame, args []Value) Value {
		p := args[0].(PtrV)
		m := in.load(p).(*MutexM)
		if !m.Held {
			in.store(p, &MutexM{Held: true})
			in.callValue(fr, args[1], nil)
		}
		return nil
	}
	intrinsics["runtime.NumCPU"] = func(in *Interp, fr *Frame, args []Value) Value { return i64(4) }
	intrinsics["runtime.GOMAXPROCS"] = func(in *Interp, fr *Frame, args []Value) Value { return i64(4) }
	intrinsics["sync/atomic.AddUint64"] = func(in *Interp, fr *Frame, args []Value) Value {
		p := args[0].(PtrV)
		v := BVAdd(in.load(p).(*Term), args[1].(*Term))
		in.store(p, v)
		return v
	}
	intrinsics["sync/atomic.AddInt64"] = intrinsics["sync/atomic.AddUint64"]
	intrinsics["sync/atomic.LoadInt64"] = func(in *Interp, fr *Frame, args []Value) Value { return in.load(args[0].(PtrV)) }
	intrinsics["sync/atomic.LoadUint64"] = intrinsics["sync/atomic.LoadInt64"]
}

// ---------------------------------------------------------------- randomness

type randReaderTok struct{}

func (*randReaderTok) ModelName() string { return "rand.Reader" }

func (in *Interp) freshRandBytes(n int) []*Term {
	out := make([]*Term, n)
	if in.param("randconc", 0) == 1 {
		// deterministic concrete randomness (honest pre-states): SHA-256 based stream
		k, _ := in.misc["randSeq"].(int)
		in.misc["randSeq"] = k + 1
		var buf []byte
		for ctr := 0; len(buf) < n; ctr++ {
			d := sha256.Sum256([]byte(fmt.Sprintf("gosym-rand-%d-%d-%d", in.param("randseed", 0), k, ctr)))
			buf = append(buf, d[:]...)
		}
		for i := range out {
			out[i] = BVConst64(uint64(buf[i]), 8)
		}
		return out
	}
	stuck, _ := in.misc["stuckRand"].(bool)
	if stuck {
		// a stuck RNG returns the same block from the start on every call
		for i := range out {
			out[i] = Var(fmt.Sprintf("stuckrand_%d", i), BV(8))
		}
		return out
	}
	k, _ := in.misc["randSeq"].(int)
	for i := range out {
		out[i] = Var(fmt.Sprintf("rand%d_%d", k, i), BV(8))
	}
	in.misc["randSeq"] = k + 1
	in.symVars = append(in.symVars, out...)
	if in.fieldOn() && n > 0 {
		in.assume(Neq(out[0], BVConst64(0, 8)))
	}
	return out
}

func init() {
	intrinsics["crypto/rand.Read"] = func(in *Interp, fr *Frame, args []Value) Value {
		dst := args[0].(SliceV)
		// a harness may have replaced rand.Reader by its own reader
		for _, p := range in.prog.AllPackages() {
			if p.Pkg.Path() == "crypto/rand" {
				rv := in.load(PtrV{C: in.global(p.Var("Reader"))})
				if iv, ok := rv.(IfaceV); ok && iv.T != nil && !strings.Contains(iv.T.String(), "crypto/rand.reader") {
					return intrinsics["io.ReadFull"](in, fr, []Value{iv, dst})
				}
			}
		}
		bs := in.freshRandBytes(dst.Len)
		for i, b := range bs {
			in.store(PtrV{dst.C, extPath(dst.Path, dst.Off+i)}, b)
		}
		return tup(i64(int64(dst.Len)), nilErr)
	}
	// rand.Reader is a global of interface type io.Reader: model its dynamic value lazily via Read on *rand.reader
	intrinsics["(*crypto/rand.reader).Read"] = func(in *Interp, fr *Frame, args []Value) Value {
		return intrinsics["crypto/rand.Read"](in, fr, args[1:])
	}
	intrinsics["io.ReadFull"] = func(in *Interp, fr *Frame, args []Value) Value {
		r := args[0].(IfaceV)
		dst := args[1].(SliceV)
		if r.T == nil {
			in.goPanicf("runtime error: invalid memory address or nil pointer dereference (nil io.Reader)")
		}
		got := 0
		for got < dst.Len {
			sub := SliceV{C: dst.C, Path: dst.Path, Off: dst.Off + got, Len: dst.Len - got, Cap: dst.Cap - got}
			res := in.callMethod(r.T, r.V, "Read", sub).(TupleV)
			n := int(res[0].(*Term).Int64())
			got += n
			if !isNilValue(res[1]) {
				if got >= dst.Len {
					break
				}
				if got > 0 {
					return tup(i64(int64(got)), in.ioGlobal("ErrUnexpectedEOF"))
				}
				return tup(i64(int64(got)), res[1])
			}
			if n == 0 {
				in.fail("io.ReadFull: reader made no progress")
			}
		}
		return tup(i64(int64(got)), nilErr)
	}
}

func (in *Interp) ioGlobal(name string) Value {
	for _, p := range in.prog.AllPackages() {
		if p.Pkg.Path() == "io" {
			return in.load(PtrV{C: in.global(p.Var(name))})
		}
	}
	return nil
}

// ---------------------------------------------------------------- hash model

// hashApp is one application H_kind(key, stream).
type hashApp struct {
	iteC       *Term // synthetic application: ite(iteC, iteA, iteB) (input bytes were ite's on one condition)
	iteA, iteB *hashApp
	id     int
	kind   string
	key    []*Term
	stream []*Term
	out    []*Term // materialised output bytes
	conc   []byte  // concrete output (all inputs constant)
	fixed  int     // fixed output length (0 = XOF)
}

const hashAxiomBytes = 32

func allConstBytes(ts []*Term) ([]byte, bool) {
	out := make([]byte, len(ts))
	for i, t := range ts {
		if !t.IsConst() {
			return nil, false
		}
		out[i] = byte(t.Uint64())
	}
	return out, true
}

func concreteHash(kind string, key, data []byte, n int) []byte {
	switch kind {
	case "blake3":
		h := blake3.New()
		h.Write(data)
		out := make([]byte, n)
		h.Digest().Read(out)
		return out
	case "blake3-keyed":
		h, err := blake3.NewKeyed(key)
		if err != nil {
			return nil
		}
		h.Write(data)
		out := make([]byte, n)
		h.Digest().Read(out)
		return out
	case "blake3-derive":
		h := blake3.NewDeriveKey(string(key))
		h.Write(data)
		out := make([]byte, n)
		h.Digest().Read(out)
		return out
	case "sha256":
		s := sha256.Sum256(data)
		return s[:]
	case "sha512":
		s := sha512.Sum512(data)
		return s[:]
	case "hmac-sha512":
		m := hmac.New(sha512.New, key)
		m.Write(data)
		return m.Sum(nil)
	case "hmac-sha256":
		m := hmac.New(sha256.New, key)
		m.Write(data)
		return m.Sum(nil)
	}
	return nil
}

func fixedLen(kind string) int {
	switch kind {
	case "sha256", "hmac-sha256":
		return 32
	case "sha512", "hmac-sha512":
		return 64
	}
	return 0
}

func streamEq(a, b []*Term) *Term {
	if len(a) != len(b) {
		return False
	}
	cs := make([]*Term, 0, len(a))
	for i := range a {
		e := Eq(a[i], b[i])
		if e.IsFalse() {
			return False
		}
		cs = append(cs, e)
	}
	return And(cs...)
}

func (in *Interp) hashApply(kind string, key, stream []*Term) *hashApp {
	// ite-lifting: H(ite(c, x, y)) = ite(c, H(x), H(y)) when all symbolic choices in the input share one condition
	var cond *Term
	lift := true
	for _, b := range append(append([]*Term{}, key...), stream...) {
		if b.Op == "ite" {
			if cond == nil {
				cond = b.Args[0]
			} else if b.Args[0] != cond {
				lift = false
			}
		}
	}
	if cond != nil && lift {
		pick := func(bs []*Term, which int) []*Term {
			out := make([]*Term, len(bs))
			for i, b := range bs {
				if b.Op == "ite" {
					out[i] = b.Args[which]
				} else {
					out[i] = b
				}
			}
			return out
		}
		a := in.hashApply(kind, pick(key, 1), pick(stream, 1))
		b := in.hashApply(kind, pick(key, 2), pick(stream, 2))
		return &hashApp{iteC: cond, iteA: a, iteB: b, kind: kind, fixed: fixedLen(kind)}
	}
	// syntactic identity
	for _, h := range in.hashes {
		if h.kind == kind && len(h.key) == len(key) && len(h.stream) == len(stream) {
			same := true
			for i := range key {
				if h.key[i] != key[i] {
					same = false
					break
				}
			}
			for i := 0; same && i < len(stream); i++ {
				if h.stream[i] != stream[i] {
					same = false
				}
			}
			if same {
				return h
			}
		}
	}
	in.hashSeq++
	h := &hashApp{id: in.hashSeq, kind: kind, key: append([]*Term{}, key...), stream: append([]*Term{}, stream...), fixed: fixedLen(kind)}
	kb, ok1 := allConstBytes(key)
	sb, ok2 := allConstBytes(stream)
	n := 64
	if h.fixed > 0 {
		n = h.fixed
	}
	if ok1 && ok2 {
		h.conc = concreteHash(kind, kb, sb, n)
		if h.conc == nil {
			in.fail("concrete hash failed for %s", kind)
		}
		for _, b := range h.conc {
			h.out = append(h.out, BVConst64(uint64(b), 8))
		}
	} else {
		for i := 0; i < n; i++ {
			v := Var(fmt.Sprintf("H%d_%d", h.id, i), BV(8))
			h.out = append(h.out, v)
		}
		in.stubsSeen["hash-model:"+kind] = true
		if in.fieldOn() {
			// genericity: a digest does not start with a zero byte (keeps all-zero scans from forking)
			in.assume(Neq(h.out[0], BVConst64(0, 8)))
			in.stubsSeen["genericity: first byte of every symbolic digest / random string is non-zero"] = true
		}
	}
	// axioms against earlier applications of the same kind (at least one side symbolic)
	for _, o := range in.hashes {
		if in.param("hashaxioms", 1) == 0 {
			break // harness only needs the functional behaviour on syntactically equal inputs
		}
		if o.kind != kind || (o.conc != nil && h.conc != nil) {
			continue
		}
		if in.fieldOn() {
			// field mode: streams are canonical, so syntactically different streams are different inputs and
			// their digests differ (collision freedom); no stream comparison needed
			m := hashAxiomBytes
			if len(o.out) >= m && len(h.out) >= m {
				in.assumeAxiom(Not(streamEq(o.out[:m], h.out[:m])))
			}
			continue
		}
		se := And(streamEq(o.key, h.key), streamEq(o.stream, h.stream))
		m := hashAxiomBytes
		if len(o.out) < m {
			m = len(o.out)
		}
		if len(h.out) < m {
			m = len(h.out)
		}
		oe := streamEq(o.out[:m], h.out[:m])
		// every aligned 32-byte block of the output is collision-free as well (XOF blocks used as separate values)
		for blk := hashAxiomBytes; blk+hashAxiomBytes <= len(o.out) && blk+hashAxiomBytes <= len(h.out); blk += hashAxiomBytes {
			oeb := streamEq(o.out[blk:blk+hashAxiomBytes], h.out[blk:blk+hashAxiomBytes])
			if se.IsFalse() {
				in.assumeAxiom(Not(oeb))
			} else {
				in.assumeAxiom(Implies(oeb, se))
			}
		}
		if se.IsFalse() {
			in.assumeAxiom(Not(oe)) // collision-freeness
		} else {
			all := len(o.out)
			if len(h.out) < all {
				all = len(h.out)
			}
			in.assumeAxiom(Implies(se, streamEq(o.out[:all], h.out[:all]))) // functional consistency
			in.assumeAxiom(Implies(oe, se))                                  // collision-freeness
		}
	}
	// distinct aligned blocks of one symbolic output differ
	if h.conc == nil && len(h.out) >= 2*hashAxiomBytes && !in.fieldOn() {
		in.assumeAxiom(Not(streamEq(h.out[:hashAxiomBytes], h.out[hashAxiomBytes:2*hashAxiomBytes])))
	}
	in.hashes = append(in.hashes, h)
	return h
}

func (h *hashApp) outByte(in *Interp, i int) *Term {
	if h.iteC != nil {
		return Ite(h.iteC, h.iteA.outByte(in, i), h.iteB.outByte(in, i))
	}
	if h.fixed > 0 && i >= h.fixed {
		in.fail("hash output index beyond fixed length")
	}
	for len(h.out) <= i {
		k := len(h.out)
		if h.conc != nil {
			kb, _ := allConstBytes(h.key)
			sb, _ := allConstBytes(h.stream)
			h.conc = concreteHash(h.kind, kb, sb, 2*(i+1))
			for j := k; j < len(h.conc); j++ {
				h.out = append(h.out, BVConst64(uint64(h.conc[j]), 8))
			}
		} else {
			h.out = append(h.out, Var(fmt.Sprintf("H%d_%d", h.id, k), BV(8)))
		}
	}
	return h.out[i]
}

type HasherM struct {
	Kind   string
	Key    []*Term
	Stream []*Term
}

func (*HasherM) ModelName() string { return "hasher" }

type DigestM struct {
	App *hashApp
	Pos int
}

func (*DigestM) ModelName() string { return "digest" }

func (h *HasherM) write(data []*Term) *HasherM {
	ns := make([]*Term, 0, len(h.Stream)+len(data))
	ns = append(append(ns, h.Stream...), data...)
	return &HasherM{Kind: h.Kind, Key: h.Key, Stream: ns}
}

func init() {
	const b3 = "github.com/zeebo/blake3"
	modelZero[b3+".Hasher"] = func(in *Interp) Value { return &HasherM{Kind: "blake3"} }
	modelZero[b3+".Digest"] = func(in *Interp) Value { return &DigestM{} }
	newHasher := func(in *Interp, kind string, key []*Term) Value {
		c := in.newCell(in.namedType(b3, "Hasher"), &HasherM{Kind: kind, Key: key})
		return PtrV{C: c}
	}
	intrinsics[b3+".New"] = func(in *Interp, fr *Frame, args []Value) Value { return newHasher(in, "blake3", nil) }
	intrinsics[b3+".NewKeyed"] = func(in *Interp, fr *Frame, args []Value) Value {
		k := in.bytesOf(args[0])
		if len(k) != 32 {
			return tup(PtrV{}, in.mkError("invalid key size", nil))
		}
		return tup(newHasher(in, "blake3-keyed", k), nilErr)
	}
	intrinsics[b3+".NewDeriveKey"] = func(in *Interp, fr *Frame, args []Value) Value {
		return newHasher(in, "blake3-derive", args[0].(StrV).B)
	}
	intrinsics[b3+".DeriveKey"] = func(in *Interp, fr *Frame, args []Value) Value {
		app := in.hashApply("blake3-derive", args[0].(StrV).B, in.bytesOf(args[1]))
		dst := args[2].(SliceV)
		for i := 0; i < dst.Len; i++ {
			in.store(PtrV{dst.C, extPath(dst.Path, dst.Off+i)}, app.outByte(in, i))
		}
		return nil
	}
	hw := func(in *Interp, args []Value, data []*Term) Value {
		p := args[0].(PtrV)
		h := in.load(p).(*HasherM)
		in.store(p, h.write(data))
		return tup(i64(int64(len(data))), nilErr)
	}
	intrinsics["(*"+b3+".Hasher).Write"] = func(in *Interp, fr *Frame, args []Value) Value {
		var d []*Term
		if s := args[1].(SliceV); s.C != nil {
			d = in.bytesOf(s)
		}
		return hw(in, args, d)
	}
	intrinsics["(*"+b3+".Hasher).WriteString"] = func(in *Interp, fr *Frame, args []Value) Value {
		return hw(in, args, args[1].(StrV).B)
	}
	intrinsics["(*"+b3+".Hasher).Reset"] = func(in *Interp, fr *Frame, args []Value) Value {
		p := args[0].(PtrV)
		h := in.load(p).(*HasherM)
		in.store(p, &HasherM{Kind: h.Kind, Key: h.Key})
		return nil
	}
	intrinsics["(*"+b3+".Hasher).Clone"] = func(in *Interp, fr *Frame, args []Value) Value {
		h := in.load(args[0].(PtrV)).(*HasherM)
		c := in.newCell(in.namedType(b3, "Hasher"), h)
		return PtrV{C: c}
	}
	intrinsics["(*"+b3+".Hasher).Digest"] = func(in *Interp, fr *Frame, args []Value) Value {
		h := in.load(args[0].(PtrV)).(*HasherM)
		app := in.hashApply(h.Kind, h.Key, h.Stream)
		c := in.newCell(in.namedType(b3, "Digest"), &DigestM{App: app})
		return PtrV{C: c}
	}
	intrinsics["(*"+b3+".Hasher).Sum"] = func(in *Interp, fr *Frame, args []Value) Value {
		h := in.load(args[0].(PtrV)).(*HasherM)
		app := in.hashApply(h.Kind, h.Key, h.Stream)
		var pre []*Term
		if s := args[1].(SliceV); s.C != nil {
			pre = in.bytesOf(s)
		}
		for i := 0; i < 32; i++ {
			pre = append(pre, app.outByte(in, i))
		}
		return in.byteSlice(pre)
	}
	intrinsics["(*"+b3+".Digest).Read"] = func(in *Interp, fr *Frame, args []Value) Value {
		p := args[0].(PtrV)
		d := in.load(p).(*DigestM)
		dst := args[1].(SliceV)
		for i := 0; i < dst.Len; i++ {
			in.store(PtrV{dst.C, extPath(dst.Path, dst.Off+i)}, d.App.outByte(in, d.Pos+i))
		}
		in.store(p, &DigestM{App: d.App, Pos: d.Pos + dst.Len})
		return tup(i64(int64(dst.Len)), nilErr)
	}
	// sha256 / sha512 / hmac through hash.Hash
	modelZero["crypto/sha256.digest"] = func(in *Interp) Value { return &HasherM{Kind: "sha256"} }
	modelZero["crypto/sha512.digest"] = func(in *Interp) Value { return &HasherM{Kind: "sha512"} }
	mkStd := func(pkg, kind string) Intrinsic {
		return func(in *Interp, fr *Frame, args []Value) Value {
			t := in.namedType(pkg, "digest")
			c := in.newCell(t, &HasherM{Kind: kind})
			return IfaceV{T: types.NewPointer(t), V: PtrV{C: c}}
		}
	}
	intrinsics["crypto/sha256.New"] = mkStd("crypto/sha256", "sha256")
	intrinsics["crypto/sha512.New"] = mkStd("crypto/sha512", "sha512")
	for _, pk := range []struct{ pkg, kind string }{{"crypto/sha256", "sha256"}, {"crypto/sha512", "sha512"}} {
		pk := pk
		pre := "(*" + pk.pkg + ".digest)."
		intrinsics[pre+"Write"] = intrinsics["(*"+b3+".Hasher).Write"]
		intrinsics[pre+"Reset"] = intrinsics["(*"+b3+".Hasher).Reset"]
		intrinsics[pre+"Sum"] = func(in *Interp, fr *Frame, args []Value) Value {
			h := in.load(args[0].(PtrV)).(*HasherM)
			app := in.hashApply(h.Kind, h.Key, h.Stream)
			var out []*Term
			if s := args[1].(SliceV); s.C != nil {
				out = in.bytesOf(s)
			}
			for i := 0; i < app.fixed; i++ {
				out = append(out, app.outByte(in, i))
			}
			return in.byteSlice(out)
		}
		intrinsics[pre+"Size"] = func(in *Interp, fr *Frame, args []Value) Value { return i64(int64(fixedLen(pk.kind))) }
		intrinsics[pre+"BlockSize"] = func(in *Interp, fr *Frame, args []Value) Value { return i64(64) }
	}
	intrinsics["crypto/sha256.Sum256"] = func(in *Interp, fr *Frame, args []Value) Value {
		var d []*Term
		if s := args[0].(SliceV); s.C != nil {
			d = in.bytesOf(s)
		}
		app := in.hashApply("sha256", nil, d)
		e := make([]Value, 32)
		for i := range e {
			e[i] = app.outByte(in, i)
		}
		return &ArrV{e}
	}
	// hmac.New(sha512.New, key): model by kind detection through the constructor function value
	intrinsics["crypto/hmac.New"] = func(in *Interp, fr *Frame, args []Value) Value {
		f := args[0].(FuncV)
		kind := "hmac-sha256"
		if f.Fn != nil && strings.Contains(f.Fn.String(), "sha512") {
			kind = "hmac-sha512"
		}
		pkg := "crypto/sha256"
		if kind == "hmac-sha512" {
			pkg = "crypto/sha512"
		}
		t := in.namedType(pkg, "digest")
		c := in.newCell(t, &HasherM{Kind: kind, Key: in.bytesOf(args[1])})
		return IfaceV{T: types.NewPointer(t), V: PtrV{C: c}}
	}
}

var _ = big.NewInt

func init() {
	intrinsics["errors.As"] = func(in *Interp, fr *Frame, args []Value) Value {
		tgt, ok := args[1].(IfaceV)
		if !ok || tgt.T == nil {
			in.goPanicf("errors: target cannot be nil")
		}
		pt, ok := tgt.T.Underlying().(*types.Pointer)
		tp, _ := tgt.V.(PtrV)
		if !ok || tp.C == nil {
			in.goPanicf("errors: target must be a non-nil pointer")
		}
		elem := pt.Elem()
		cur := args[0]
		for k := 0; k < 20; k++ {
			iv, ok := cur.(IfaceV)
			if !ok || iv.T == nil {
				return False
			}
			if it, isI := elem.Underlying().(*types.Interface); isI {
				if in.implements(iv.T, it) {
					in.store(tp, iv)
					return True
				}
			} else if types.Identical(iv.T, elem) {
				in.store(tp, iv.V)
				return True
			}
			if p, ok := iv.V.(PtrV); ok && p.C != nil {
				if e, ok := p.C.V.(*ErrV); ok {
					if e.Wrap == nil {
						return False
					}
					cur = e.Wrap
					continue
				}
			}
			if in.hasMethod(iv.T, "Unwrap") {
				cur = in.callMethod(iv.T, iv.V, "Unwrap")
				continue
			}
			return False
		}
		return False
	}
}
