package main

// Sparse multivariate polynomials over Q (engine-side normal form used for hash keys and fast paths in field mode).

import (
	"fmt"
	"math/big"
	"sort"
	"strings"
)

type mono struct {
	key  string // canonical: "v1^e1*v2^e2" with variable indices ascending
	vars []int
	exps []int
}

type Poly struct {
	m map[string]*big.Rat
	k map[string]*mono
}

func newPoly() *Poly { return &Poly{m: map[string]*big.Rat{}, k: map[string]*mono{}} }

var polyVarNames []string
var polyVarIdx = map[string]int{}

func polyVarID(name string) int {
	if i, ok := polyVarIdx[name]; ok {
		return i
	}
	polyVarIdx[name] = len(polyVarNames)
	polyVarNames = append(polyVarNames, name)
	return len(polyVarNames) - 1
}

func monoOf(vars, exps []int) *mono {
	type ve struct{ v, e int }
	var l []ve
	for i := range vars {
		if exps[i] != 0 {
			l = append(l, ve{vars[i], exps[i]})
		}
	}
	sort.Slice(l, func(i, j int) bool { return l[i].v < l[j].v })
	var sb strings.Builder
	m := &mono{}
	for i, x := range l {
		if i > 0 {
			sb.WriteByte('*')
		}
		fmt.Fprintf(&sb, "%d^%d", x.v, x.e)
		m.vars = append(m.vars, x.v)
		m.exps = append(m.exps, x.e)
	}
	m.key = sb.String()
	return m
}

func mulMono(a, b *mono) *mono {
	var vars, exps []int
	i, j := 0, 0
	for i < len(a.vars) || j < len(b.vars) {
		switch {
		case j >= len(b.vars) || (i < len(a.vars) && a.vars[i] < b.vars[j]):
			vars, exps = append(vars, a.vars[i]), append(exps, a.exps[i])
			i++
		case i >= len(a.vars) || b.vars[j] < a.vars[i]:
			vars, exps = append(vars, b.vars[j]), append(exps, b.exps[j])
			j++
		default:
			vars, exps = append(vars, a.vars[i]), append(exps, a.exps[i]+b.exps[j])
			i++
			j++
		}
	}
	return monoOf(vars, exps)
}

func polyConst(c *big.Rat) *Poly {
	p := newPoly()
	if c.Sign() != 0 {
		m := monoOf(nil, nil)
		p.m[m.key] = new(big.Rat).Set(c)
		p.k[m.key] = m
	}
	return p
}
func polyInt(v int64) *Poly { return polyConst(big.NewRat(v, 1)) }
func polyVar(name string) *Poly {
	p := newPoly()
	m := monoOf([]int{polyVarID(name)}, []int{1})
	p.m[m.key] = big.NewRat(1, 1)
	p.k[m.key] = m
	return p
}

func (p *Poly) addTerm(m *mono, c *big.Rat) {
	if cur, ok := p.m[m.key]; ok {
		cur.Add(cur, c)
		if cur.Sign() == 0 {
			delete(p.m, m.key)
			delete(p.k, m.key)
		}
		return
	}
	if c.Sign() != 0 {
		p.m[m.key] = new(big.Rat).Set(c)
		p.k[m.key] = m
	}
}

func (p *Poly) Add(q *Poly) *Poly {
	r := newPoly()
	for k, c := range p.m {
		r.addTerm(p.k[k], c)
	}
	for k, c := range q.m {
		r.addTerm(q.k[k], c)
	}
	return r
}
func (p *Poly) Neg() *Poly {
	r := newPoly()
	for k, c := range p.m {
		r.m[k] = new(big.Rat).Neg(c)
		r.k[k] = p.k[k]
	}
	return r
}
func (p *Poly) Sub(q *Poly) *Poly { return p.Add(q.Neg()) }
func (p *Poly) Mul(q *Poly) *Poly {
	r := newPoly()
	for ka, ca := range p.m {
		for kb, cb := range q.m {
			r.addTerm(mulMono(p.k[ka], q.k[kb]), new(big.Rat).Mul(ca, cb))
		}
	}
	return r
}
func (p *Poly) Scale(c *big.Rat) *Poly {
	r := newPoly()
	if c.Sign() == 0 {
		return r
	}
	for k, x := range p.m {
		r.m[k] = new(big.Rat).Mul(x, c)
		r.k[k] = p.k[k]
	}
	return r
}
func (p *Poly) IsZero() bool { return len(p.m) == 0 }
func (p *Poly) IsConst() (*big.Rat, bool) {
	if len(p.m) == 0 {
		return new(big.Rat), true
	}
	if len(p.m) == 1 {
		if c, ok := p.m[""]; ok {
			return c, true
		}
	}
	return nil, false
}
func (p *Poly) Terms() int { return len(p.m) }

// Key is a canonical string of the polynomial.
func (p *Poly) Key() string {
	ks := make([]string, 0, len(p.m))
	for k := range p.m {
		ks = append(ks, k)
	}
	sort.Strings(ks)
	var sb strings.Builder
	for _, k := range ks {
		sb.WriteString(p.m[k].RatString())
		sb.WriteByte('[')
		sb.WriteString(k)
		sb.WriteString("]+")
	}
	return sb.String()
}

// String renders with variable names (for evidence / messages).
func (p *Poly) String() string {
	if len(p.m) == 0 {
		return "0"
	}
	ks := make([]string, 0, len(p.m))
	for k := range p.m {
		ks = append(ks, k)
	}
	sort.Strings(ks)
	var parts []string
	for i, k := range ks {
		if i >= 6 {
			parts = append(parts, fmt.Sprintf("… (%d terms)", len(ks)))
			break
		}
		m := p.k[k]
		s := p.m[k].RatString()
		for j, v := range m.vars {
			s += "*" + polyVarNames[v]
			if m.exps[j] > 1 {
				s += fmt.Sprintf("^%d", m.exps[j])
			}
		}
		parts = append(parts, s)
	}
	return strings.Join(parts, " + ")
}

// Term builds an SMT Real term for the polynomial (expanded form).
func (p *Poly) Term() *Term {
	ks := make([]string, 0, len(p.m))
	for k := range p.m {
		ks = append(ks, k)
	}
	sort.Strings(ks)
	var sum *Term = RealConst(big.NewInt(0))
	for _, k := range ks {
		m := p.k[k]
		c := p.m[k]
		var t *Term = ratTerm(c)
		for j, v := range m.vars {
			x := Var(polyVarNames[v], RealSort)
			for e := 0; e < m.exps[j]; e++ {
				t = Mul(t, x)
			}
		}
		sum = Add(sum, t)
	}
	return sum
}

func ratTerm(c *big.Rat) *Term {
	if c.IsInt() {
		return RealConst(c.Num())
	}
	return mk("/", RealSort, RealConst(c.Num()), RealConst(c.Denom()))
}

// Eval evaluates the polynomial at rational values (missing variables = 0).
func (p *Poly) Eval(vals map[string]*big.Rat) *big.Rat {
	sum := new(big.Rat)
	for k, c := range p.m {
		t := new(big.Rat).Set(c)
		m := p.k[k]
		for j, v := range m.vars {
			x := vals[polyVarNames[v]]
			if x == nil {
				x = new(big.Rat)
			}
			for e := 0; e < m.exps[j]; e++ {
				t.Mul(t, x)
			}
		}
		sum.Add(sum, t)
	}
	return sum
}

// Vars lists the variable names occurring in p.
func (p *Poly) Vars() []string {
	seen := map[int]bool{}
	for _, m := range p.k {
		for _, v := range m.vars {
			seen[v] = true
		}
	}
	var out []string
	for v := range seen {
		out = append(out, polyVarNames[v])
	}
	sort.Strings(out)
	return out
}
