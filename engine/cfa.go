package main

// Bounded model checking of goroutine code: the SSA of the functions reachable from a harness in pkg/pool is compiled
// (call sites inlined) into per-thread control-flow automata whose edges are basic-block segments ending at a visible
// operation (channel send / receive / select, atomic operations, task calls, go, close). The product system is unrolled
// K steps in SMT-LIB with the scheduler's choice at every step a solver variable; z3 decides reachability of deadlock,
// lost-worker and wrong-result states.

import (
	"encoding/json"
	"flag"
	"fmt"
	"go/constant"
	"go/token"
	"go/types"
	"os"
	"os/exec"
	"sort"
	"strings"
	"time"

	"golang.org/x/tools/go/ssa"
)

type bmcVar struct {
	name string
	sort string // Int | Bool
	init string
}

type bmcEdge struct {
	id      int
	thread  int // thread kind index: 0 caller, 1 worker
	from    int
	to      int
	guard   string            // over @ state
	upd     map[string]string // var -> expr over @ state (thread-local vars use prefix T!)
	kind    string            // tau | send | recv | recvclosed | go | task ...
	ch      string            // channel expr for send/recv
	payload []string          // send payload comps
	dst     []string          // recv destination vars (local names)
	okVar   string            // recv comma-ok destination
	desc    string
	sel     int    // select group id (edges of one select share the from-location)
	idxVar  string // select index result var
	idxVal  int
}

type bmcThreadKind struct {
	name   string
	vars   []bmcVar // thread-local vars (names without thread prefix)
	edges  []*bmcEdge
	nloc   int
	locDesc map[int]string
	entry  int
	params []string // flattened parameter var names (for go)
	final  map[int]bool
	idleLoc int
}

type bmcCompiler struct {
	prog     *ssa.Program
	kinds    []*bmcThreadKind
	cur      *bmcThreadKind
	shared   []bmcVar
	maxCells, maxChans, maxArrs, maxLen, maxObjs int
	errs     []string
	inline   int
	taskNil  bool
	objFields map[string]int
	lastFrame *bmcFrame
	rootFrame *bmcFrame
	goTargets map[*ssa.Function]bool
}

func (c *bmcCompiler) fail(format string, a ...interface{}) {
	c.errs = append(c.errs, fmt.Sprintf(format, a...))
}

// ---- layouts

func (c *bmcCompiler) comps(t types.Type) []string { // component sorts
	switch u := t.Underlying().(type) {
	case *types.Basic:
		if u.Info()&types.IsBoolean != 0 {
			return []string{"Bool"}
		}
		if u.Info()&types.IsInteger != 0 {
			return []string{"Int"}
		}
		if u.Info()&types.IsString != 0 {
			return nil
		}
	case *types.Pointer, *types.Chan, *types.Slice, *types.Interface:
		return []string{"Int"}
	case *types.Signature:
		return nil
	case *types.Struct:
		var out []string
		for i := 0; i < u.NumFields(); i++ {
			out = append(out, c.comps(u.Field(i).Type())...)
		}
		return out
	case *types.Tuple:
		var out []string
		for i := 0; i < u.Len(); i++ {
			out = append(out, c.comps(u.At(i).Type())...)
		}
		return out
	}
	c.fail("layout: unsupported type %s", t)
	return nil
}

func (c *bmcCompiler) fieldOffset(st *types.Struct, f int) int {
	off := 0
	for i := 0; i < f; i++ {
		off += len(c.comps(st.Field(i).Type()))
	}
	return off
}

func zeroOf(sort string) string {
	if sort == "Bool" {
		return "false"
	}
	return "0"
}

// ---- per-function compilation with inlining

type bmcFrame struct {
	fn     *ssa.Function
	prefix string
	regs   map[ssa.Value][]string // SSA value -> local var names (state vars)
	allocs map[*ssa.Alloc][]string
	retVars []string
	retLoc  int
	blockLoc map[*ssa.BasicBlock]int
}

func (c *bmcCompiler) newVar(name, sort string) string {
	c.cur.vars = append(c.cur.vars, bmcVar{name: name, sort: sort, init: zeroOf(sort)})
	return name
}

func (c *bmcCompiler) newLoc(desc string) int {
	l := c.cur.nloc
	c.cur.nloc++
	c.cur.locDesc[l] = desc
	return l
}

func (c *bmcCompiler) addEdge(e *bmcEdge) *bmcEdge {
	e.id = len(c.cur.edges)
	if e.upd == nil {
		e.upd = map[string]string{}
	}
	if e.guard == "" {
		e.guard = "true"
	}
	c.cur.edges = append(c.cur.edges, e)
	return e
}

func sanitize(s string) string {
	return strings.NewReplacer(" ", "_", "*", "p", "(", "", ")", "", ".", "_", "/", "_", "$", "_", "#", "_", ",", "_").Replace(s)
}

// regsOf returns (allocating on demand) the state vars of an SSA value.
func (c *bmcCompiler) regsOf(fr *bmcFrame, v ssa.Value) []string {
	if r, ok := fr.regs[v]; ok {
		return r
	}
	cs := c.comps(v.Type())
	r := make([]string, len(cs))
	for i, s := range cs {
		r[i] = c.newVar(fmt.Sprintf("%s%s_%d", fr.prefix, sanitize(v.Name()), i), s)
	}
	fr.regs[v] = r
	return r
}

// val returns expressions (over @-state) for an operand.
func (c *bmcCompiler) val(fr *bmcFrame, env map[string]string, v ssa.Value) []string {
	switch x := v.(type) {
	case *ssa.Const:
		cs := c.comps(x.Type())
		if x.Value == nil {
			out := make([]string, len(cs))
			for i, s := range cs {
				if s == "Bool" {
					out[i] = "false"
				} else if _, isPtrLike := x.Type().Underlying().(*types.Basic); isPtrLike {
					out[i] = "0"
				} else {
					out[i] = "(- 1)" // nil pointer / chan / slice / interface
					if _, isIface := x.Type().Underlying().(*types.Interface); isIface {
						out[i] = "0"
					}
				}
			}
			return out
		}
		switch x.Value.Kind() {
		case constant.Bool:
			return []string{fmt.Sprint(constant.BoolVal(x.Value))}
		case constant.Int:
			n, _ := constant.Int64Val(x.Value)
			if n < 0 {
				return []string{fmt.Sprintf("(- %d)", -n)}
			}
			return []string{fmt.Sprint(n)}
		case constant.String:
			return nil
		}
	case *ssa.Function, *ssa.MakeClosure, *ssa.Builtin:
		return nil
	case *ssa.Global:
		c.fail("global %s not supported", x.Name())
		return nil
	}
	rs := c.regsOf(fr, v)
	out := make([]string, len(rs))
	for i, r := range rs {
		if e, ok := env[r]; ok {
			out[i] = e
		} else {
			out[i] = "T!" + r + "@"
		}
	}
	return out
}

func (c *bmcCompiler) set(fr *bmcFrame, env map[string]string, v ssa.Value, exprs []string) {
	rs := c.regsOf(fr, v)
	if len(rs) != len(exprs) {
		c.fail("set: arity mismatch for %s (%d vs %d)", v.Name(), len(rs), len(exprs))
		return
	}
	for i, r := range rs {
		env[r] = exprs[i]
	}
}

func selShared(name string, idx string, n int) string { // ite-chain select name[idx]
	e := fmt.Sprintf("%s_%d@", name, n-1)
	for i := n - 2; i >= 0; i-- {
		e = fmt.Sprintf("(ite (= %s %d) %s_%d@ %s)", idx, i, name, i, e)
	}
	return e
}

func (c *bmcCompiler) updShared(upd map[string]string, name, idx, val string, n int) {
	for i := 0; i < n; i++ {
		v := fmt.Sprintf("%s_%d", name, i)
		cur := v + "@"
		if e, ok := upd["S!"+v]; ok {
			cur = e
		}
		upd["S!"+v] = fmt.Sprintf("(ite (= %s %d) %s %s)", idx, i, val, cur)
	}
}

type addr struct {
	kind  string   // local | cell | obj | elem
	vars  []string // local: var names
	id    string   // cell id / obj id / arr id expr
	field int      // obj field offset
	n     int      // number of comps
	idx   string   // elem index
	sorts []string
}

func (c *bmcCompiler) addrOf(fr *bmcFrame, env map[string]string, v ssa.Value) *addr {
	switch x := v.(type) {
	case *ssa.Alloc:
		elem := x.Type().(*types.Pointer).Elem()
		if vs, ok := fr.allocs[x]; ok {
			return &addr{kind: "local", vars: vs, sorts: c.comps(elem)}
		}
		// heap cell (escaping): dynamic id held in the register
		if _, isStruct := elem.Underlying().(*types.Struct); isStruct {
			return &addr{kind: "obj", id: c.val(fr, env, x)[0], field: 0, n: len(c.comps(elem)), sorts: c.comps(elem)}
		}
		if len(c.comps(elem)) == 0 {
			return &addr{kind: "cell", id: "0", n: -1}
		}
		return &addr{kind: "cell", id: c.val(fr, env, x)[0]}
	case *ssa.FieldAddr:
		st := x.X.Type().Underlying().(*types.Pointer).Elem().Underlying().(*types.Struct)
		off := c.fieldOffset(st, x.Field)
		n := len(c.comps(st.Field(x.Field).Type()))
		base := c.addrOf(fr, env, x.X)
		if base == nil {
			return nil
		}
		switch base.kind {
		case "local":
			return &addr{kind: "local", vars: base.vars[off : off+n], sorts: base.sorts[off : off+n]}
		case "obj":
			return &addr{kind: "obj", id: base.id, field: base.field + off, n: n, sorts: base.sorts[off : off+n]}
		}
	case *ssa.IndexAddr:
		arr := c.val(fr, env, x.X)
		idx := c.val(fr, env, x.Index)
		return &addr{kind: "elem", id: arr[0], idx: idx[0]}
	default:
		// pointer held in a register: by type
		pt, ok := v.Type().Underlying().(*types.Pointer)
		if ok {
			if _, isStruct := pt.Elem().Underlying().(*types.Struct); isStruct {
				cs := c.comps(pt.Elem())
				return &addr{kind: "obj", id: c.val(fr, env, v)[0], field: 0, n: len(cs), sorts: cs}
			}
			if len(c.comps(pt.Elem())) == 0 {
				return &addr{kind: "cell", id: "0", n: -1}
			}
			return &addr{kind: "cell", id: c.val(fr, env, v)[0]}
		}
	}
	c.fail("addrOf: unsupported %T %s", v, v)
	return nil
}

func (c *bmcCompiler) load(a *addr, env map[string]string, upd map[string]string) []string {
	switch a.kind {
	case "local":
		out := make([]string, len(a.vars))
		for i, v := range a.vars {
			if e, ok := env[v]; ok {
				out[i] = e
			} else {
				out[i] = "T!" + v + "@"
			}
		}
		return out
	case "cell":
		if a.n == -1 {
			return nil
		}
		return []string{selShared("cell", a.id, c.maxCells)}
	case "obj":
		out := make([]string, a.n)
		for i := 0; i < a.n; i++ {
			out[i] = selShared(fmt.Sprintf("obj%d", a.field+i), a.id, c.maxObjs)
			c.needObjField(a.field+i, a.sorts[i])
		}
		return out
	case "elem":
		// element value: non-nil iff a non-nil value was written (the model tracks the number of non-nil writes)
		e := "0"
		for arr := c.maxArrs - 1; arr >= 0; arr-- {
			for i := c.maxLen - 1; i >= 0; i-- {
				v := fmt.Sprintf("res_%d_%d", arr, i)
				cur := v + "@"
				if u, ok := upd["S!"+v]; ok {
					cur = u
				}
				e = fmt.Sprintf("(ite (and (= %s %d) (= %s %d)) (ite (> %s 0) 1 0) %s)", a.id, arr, a.idx, i, cur, e)
			}
		}
		return []string{e}
	}
	return nil
}

func (c *bmcCompiler) needObjField(f int, sort string) {
	key := fmt.Sprintf("obj%d", f)
	if _, ok := c.objFields[key]; ok {
		return
	}
	c.objFields[key] = 1
	for i := 0; i < c.maxObjs; i++ {
		c.shared = append(c.shared, bmcVar{name: fmt.Sprintf("%s_%d", key, i), sort: sort, init: zeroOf(sort)})
	}
}

func (c *bmcCompiler) store(a *addr, vals []string, env map[string]string, upd map[string]string) {
	if len(vals) == 0 {
		return // values without state (function values, empty structs)
	}
	switch a.kind {
	case "local":
		for i, v := range a.vars {
			env[v] = vals[i]
		}
	case "cell":
		c.updShared(upd, "cell", a.id, vals[0], c.maxCells)
	case "obj":
		for i := 0; i < a.n; i++ {
			c.needObjField(a.field+i, a.sorts[i])
			c.updShared(upd, fmt.Sprintf("obj%d", a.field+i), a.id, vals[i], c.maxObjs)
		}
	case "elem":
		// results[idx] = v : record "set with non-nil value" and detect out-of-range
		for arr := 0; arr < c.maxArrs; arr++ {
			for i := 0; i < c.maxLen; i++ {
				v := fmt.Sprintf("res_%d_%d", arr, i)
				cur := v + "@"
				if e, ok := upd["S!"+v]; ok {
					cur = e
				}
				upd["S!"+v] = fmt.Sprintf("(ite (and (= %s %d) (= %s %d)) (+ %s %s) %s)", a.id, arr, a.idx, i, cur, vals[0], cur)
			}
		}
		cur := "oob@"
		if e, ok := upd["S!oob"]; ok {
			cur = e
		}
		upd["S!oob"] = fmt.Sprintf("(or %s (< %s 0) (>= %s %s))", cur, a.idx, a.idx, selShared("arrlen", a.id, c.maxArrs))
	}
}

func isVisible(ins ssa.Instruction) bool {
	switch x := ins.(type) {
	case *ssa.Send, *ssa.Select, *ssa.Go, *ssa.Panic:
		return true
	case *ssa.UnOp:
		return x.Op == token.ARROW
	case *ssa.Call:
		if x.Call.IsInvoke() {
			return true
		}
		switch f := x.Call.Value.(type) {
		case *ssa.Function:
			if f.Pkg != nil && f.Pkg.Pkg.Path() == "sync/atomic" {
				return true
			}
			return false // static call: inlined
		case *ssa.Builtin:
			return f.Name() == "close"
		default:
			return true // call through a function value: abstract task
		}
	}
	return false
}

// compileFunc lays out fn's blocks as locations/edges in the current thread kind; returns entry location.
func (c *bmcCompiler) compileFunc(fn *ssa.Function, args [][]string, prefix string, retLoc int, retVars []string) int {
	c.inline++
	if c.inline > 40 {
		c.fail("inlining too deep at %s", fn)
		return 0
	}
	fr := &bmcFrame{fn: fn, prefix: prefix, regs: map[ssa.Value][]string{}, allocs: map[*ssa.Alloc][]string{}, retVars: retVars, retLoc: retLoc, blockLoc: map[*ssa.BasicBlock]int{}}
	if fn.Blocks == nil {
		c.fail("function %s has no body", fn)
		return 0
	}
	for _, b := range fn.Blocks {
		fr.blockLoc[b] = c.newLoc(fmt.Sprintf("%s%s.b%d", prefix, fn.Name(), b.Index))
	}
	// parameters are state vars assigned by the caller edge
	for i, p := range fn.Params {
		rs := c.regsOf(fr, p)
		_ = i
		_ = rs
	}
	for _, b := range fn.Blocks {
		c.compileBlock(fr, b)
	}
	entry := fr.blockLoc[fn.Blocks[0]]
	// parameter passing edge is created by the caller (it knows the argument expressions)
	c.lastFrame = fr
	if prefix == "c_" || prefix == "w_" {
		c.rootFrame = fr
	}
	return entry
}

func (c *bmcCompiler) paramVars(fr *bmcFrame) []string {
	var out []string
	for _, p := range fr.fn.Params {
		out = append(out, c.regsOf(fr, p)...)
	}
	for _, fv := range fr.fn.FreeVars {
		out = append(out, c.regsOf(fr, fv)...)
	}
	return out
}

func (c *bmcCompiler) compileBlock(fr *bmcFrame, b *ssa.BasicBlock) {
	cur := fr.blockLoc[b]
	env := map[string]string{}
	upd := map[string]string{}
	guardAcc := "true"
	flush := func(to int, kind, desc string) *bmcEdge {
		e := &bmcEdge{thread: 0, from: cur, to: to, guard: guardAcc, upd: map[string]string{}, kind: kind, desc: desc}
		for k, v := range env {
			e.upd["T!"+k] = v
		}
		for k, v := range upd {
			e.upd[k] = v
		}
		env = map[string]string{}
		upd = map[string]string{}
		guardAcc = "true"
		return c.addEdge(e)
	}
	succEdge := func(from int, succ *ssa.BasicBlock, guard string, envIn map[string]string, updIn map[string]string, desc string) {
		// edge into succ with phi assignment
		e := &bmcEdge{from: from, to: fr.blockLoc[succ], guard: guard, upd: map[string]string{}, kind: "tau", desc: desc}
		for k, v := range envIn {
			e.upd["T!"+k] = v
		}
		for k, v := range updIn {
			e.upd[k] = v
		}
		pi := -1
		for i, p := range succ.Preds {
			if p == b {
				pi = i
			}
		}
		for _, ins := range succ.Instrs {
			phi, ok := ins.(*ssa.Phi)
			if !ok {
				break
			}
			vals := c.val(fr, envIn, phi.Edges[pi])
			for i, r := range c.regsOf(fr, phi) {
				e.upd["T!"+r] = vals[i]
			}
		}
		c.addEdge(e)
	}
	for idx, ins := range b.Instrs {
		if _, ok := ins.(*ssa.Phi); ok {
			continue
		}
		if _, ok := ins.(*ssa.DebugRef); ok {
			continue
		}
		if isVisible(ins) {
			// finish the local segment first (if it did anything), then the visible op from a fresh location
			opLoc := c.newLoc(fmt.Sprintf("%s@%d:%s", c.cur.locDesc[fr.blockLoc[b]], idx, strings.SplitN(ins.String(), "(", 2)[0]))
			flush(opLoc, "tau", "to-op")
			cur = opLoc
			next := c.newLoc(c.cur.locDesc[opLoc] + ".after")
			c.compileVisible(fr, ins, cur, next)
			cur = next
			continue
		}
		switch x := ins.(type) {
		case *ssa.Alloc:
			elem := x.Type().(*types.Pointer).Elem()
			if !x.Heap {
				cs := c.comps(elem)
				vs := make([]string, len(cs))
				for i, s := range cs {
					vs[i] = c.newVar(fmt.Sprintf("%s%s_a%d", fr.prefix, sanitize(x.Name()), i), s)
					env[vs[i]] = zeroOf(s)
				}
				fr.allocs[x] = vs
			} else if _, isStruct := elem.Underlying().(*types.Struct); isStruct {
				// heap object: id = nobj, nobj++
				cur := "nobj@"
				if e, ok := upd["S!nobj"]; ok {
					cur = e
				}
				c.set(fr, env, x, []string{cur})
				upd["S!nobj"] = "(+ " + cur + " 1)"
			} else if len(c.comps(elem)) == 0 {
				c.set(fr, env, x, []string{"0"}) // cell holding a stateless value (captured function)
			} else {
				cur := "ncell@"
				if e, ok := upd["S!ncell"]; ok {
					cur = e
				}
				c.set(fr, env, x, []string{cur})
				upd["S!ncell"] = "(+ " + cur + " 1)"
			}
		case *ssa.Store:
			a := c.addrOf(fr, env, x.Addr)
			if a != nil {
				c.store(a, c.val(fr, env, x.Val), env, upd)
			}
		case *ssa.UnOp:
			switch x.Op {
			case token.MUL:
				a := c.addrOf(fr, env, x.X)
				if a != nil {
					c.set(fr, env, x, c.load(a, env, upd))
				}
			case token.NOT:
				c.set(fr, env, x, []string{"(not " + c.val(fr, env, x.X)[0] + ")"})
			case token.SUB:
				c.set(fr, env, x, []string{"(- " + c.val(fr, env, x.X)[0] + ")"})
			default:
				c.fail("unop %s unsupported", x.Op)
			}
		case *ssa.BinOp:
			a, bb := c.val(fr, env, x.X), c.val(fr, env, x.Y)
			if len(a) != 1 || len(bb) != 1 {
				c.fail("binop on aggregate: %s", x)
				break
			}
			op := map[token.Token]string{token.ADD: "+", token.SUB: "-", token.MUL: "*", token.LSS: "<", token.LEQ: "<=", token.GTR: ">", token.GEQ: ">=", token.EQL: "=", token.NEQ: "distinct"}[x.Op]
			if op == "" {
				c.fail("binop %s unsupported", x.Op)
				break
			}
			c.set(fr, env, x, []string{fmt.Sprintf("(%s %s %s)", op, a[0], bb[0])})
		case *ssa.Convert, *ssa.ChangeType, *ssa.ChangeInterface:
			var src ssa.Value
			switch y := x.(type) {
			case *ssa.Convert:
				src = y.X
			case *ssa.ChangeType:
				src = y.X
			case *ssa.ChangeInterface:
				src = y.X
			}
			c.set(fr, env, x.(ssa.Value), c.val(fr, env, src))
		case *ssa.MakeInterface:
			c.set(fr, env, x, []string{"1"})
		case *ssa.MakeClosure:
			// abstract: remember nothing
		case *ssa.MakeChan:
			cur := "nchan@"
			if e, ok := upd["S!nchan"]; ok {
				cur = e
			}
			c.set(fr, env, x, []string{cur})
			upd["S!nchan"] = "(+ " + cur + " 1)"
			c.updShared(upd, "chcap", cur, c.val(fr, env, x.Size)[0], c.maxChans)
		case *ssa.MakeSlice:
			cur := "narr@"
			if e, ok := upd["S!narr"]; ok {
				cur = e
			}
			c.set(fr, env, x, []string{cur})
			upd["S!narr"] = "(+ " + cur + " 1)"
			c.updShared(upd, "arrlen", cur, c.val(fr, env, x.Len)[0], c.maxArrs)
		case *ssa.Extract:
			tup := c.val(fr, env, x.Tuple)
			tt := x.Tuple.Type().(*types.Tuple)
			off := 0
			for i := 0; i < x.Index; i++ {
				off += len(c.comps(tt.At(i).Type()))
			}
			n := len(c.comps(tt.At(x.Index).Type()))
			c.set(fr, env, x, tup[off:off+n])
		case *ssa.FieldAddr, *ssa.IndexAddr:
			// resolved at use
		case *ssa.Field:
			st := x.X.Type().Underlying().(*types.Struct)
			off := c.fieldOffset(st, x.Field)
			n := len(c.comps(st.Field(x.Field).Type()))
			c.set(fr, env, x, c.val(fr, env, x.X)[off:off+n])
		case *ssa.Call:
			callee, _ := x.Call.Value.(*ssa.Function)
			if b, ok := x.Call.Value.(*ssa.Builtin); ok && b.Name() == "len" {
				c.set(fr, env, x, []string{selShared("arrlen", c.val(fr, env, x.Call.Args[0])[0], c.maxArrs)})
				break
			}
			if callee == nil {
				c.fail("unsupported call %s", x)
				break
			}
			if callee.Pkg != nil && callee.Pkg.Pkg.Path() == "runtime" && callee.Name() == "NumCPU" {
				c.set(fr, env, x, []string{"2"})
				break
			}
			// static call: inline. The call is a control transfer: segment ends here.
			var args [][]string
			for _, a := range x.Call.Args {
				args = append(args, c.val(fr, env, a))
			}
			after := c.newLoc(fmt.Sprintf("%s.ret%d", c.cur.locDesc[fr.blockLoc[b]], idx))
			rets := c.regsOf(fr, x)
			sub := fmt.Sprintf("%s%s%d_", fr.prefix, sanitize(callee.Name()), c.inline)
			entry := c.compileFunc(callee, args, sub, after, rets)
			cf := c.lastFrame
			// parameter passing
			pv := c.paramVars(cf)
			flat := []string{}
			for _, a := range args {
				flat = append(flat, a...)
			}
			if len(pv) != len(flat) {
				c.fail("call %s: parameter arity %d vs %d", callee, len(pv), len(flat))
			} else {
				for i, p := range pv {
					env[p] = flat[i]
				}
			}
			flush(entry, "tau", "call "+callee.Name())
			cur = after
		case *ssa.If:
			cond := c.val(fr, env, x.Cond)[0]
			succEdge(cur, b.Succs[0], cond, env, upd, "if-true")
			succEdge(cur, b.Succs[1], "(not "+cond+")", env, upd, "if-false")
			return
		case *ssa.Jump:
			succEdge(cur, b.Succs[0], "true", env, upd, "jump")
			return
		case *ssa.Return:
			if fr.retLoc >= 0 {
				var vals []string
				for _, r := range x.Results {
					vals = append(vals, c.val(fr, env, r)...)
				}
				for i, rv := range fr.retVars {
					if i < len(vals) {
						env[rv] = vals[i]
					}
				}
				flush(fr.retLoc, "tau", "return")
			} else {
				end := c.newLoc(fr.prefix + "END")
				c.cur.final[end] = true
				flush(end, "tau", "thread-end")
			}
			return
		case *ssa.RunDefers:
		default:
			c.fail("unsupported instruction %T: %s", ins, ins)
		}
	}
}

func (c *bmcCompiler) compileVisible(fr *bmcFrame, ins ssa.Instruction, from, to int) {
	env := map[string]string{}
	switch x := ins.(type) {
	case *ssa.Send:
		c.addEdge(&bmcEdge{from: from, to: to, kind: "send", ch: c.val(fr, env, x.Chan)[0], payload: c.val(fr, env, x.X), desc: "send"})
	case *ssa.UnOp: // receive
		dst := c.regsOf(fr, x)
		e := &bmcEdge{from: from, to: to, kind: "recv", ch: c.val(fr, env, x.X)[0], desc: "recv"}
		if x.CommaOk {
			e.dst = dst[:len(dst)-1]
			e.okVar = dst[len(dst)-1]
		} else {
			e.dst = dst
		}
		c.addEdge(e)
	case *ssa.Select:
		if !x.Blocking {
			c.fail("non-blocking select unsupported")
			return
		}
		dst := c.regsOf(fr, x) // index, ok, recv values...
		off := 2
		for i, st := range x.States {
			if st.Dir == types.SendOnly {
				c.addEdge(&bmcEdge{from: from, to: to, kind: "send", ch: c.val(fr, env, st.Chan)[0], payload: c.val(fr, env, st.Send), idxVar: dst[0], idxVal: i, desc: fmt.Sprintf("select-send#%d", i)})
			} else {
				n := len(c.comps(st.Chan.Type().Underlying().(*types.Chan).Elem()))
				c.addEdge(&bmcEdge{from: from, to: to, kind: "recv", ch: c.val(fr, env, st.Chan)[0], dst: dst[off : off+n], okVar: dst[1], idxVar: dst[0], idxVal: i, desc: fmt.Sprintf("select-recv#%d", i)})
				off += n
			}
		}
	case *ssa.Go:
		var args []string
		for _, a := range x.Call.Args {
			args = append(args, c.val(fr, env, a)...)
		}
		callee, _ := x.Call.Value.(*ssa.Function)
		if callee == nil {
			c.fail("go of a function value unsupported")
			return
		}
		c.addEdge(&bmcEdge{from: from, to: to, kind: "go", payload: args, desc: "go " + callee.Name()})
		c.goTargets[callee] = true
	case *ssa.Panic:
		c.addEdge(&bmcEdge{from: from, to: from, kind: "panic", guard: "true", upd: map[string]string{"S!panicked": "true"}, desc: "panic"})
	case *ssa.Call:
		switch f := x.Call.Value.(type) {
		case *ssa.Function: // atomic
			switch f.Name() {
			case "AddInt64":
				a := c.addrOf(fr, env, x.Call.Args[0])
				upd := map[string]string{}
				nv := "(+ " + selShared("cell", a.id, c.maxCells) + " " + c.val(fr, env, x.Call.Args[1])[0] + ")"
				c.updShared(upd, "cell", a.id, nv, c.maxCells)
				upd["T!"+c.regsOf(fr, x)[0]] = nv
				c.addEdge(&bmcEdge{from: from, to: to, kind: "tau", upd: upd, desc: "atomic.AddInt64"})
			case "LoadInt64":
				a := c.addrOf(fr, env, x.Call.Args[0])
				c.addEdge(&bmcEdge{from: from, to: to, kind: "tau", upd: map[string]string{"T!" + c.regsOf(fr, x)[0]: selShared("cell", a.id, c.maxCells)}, desc: "atomic.LoadInt64"})
			default:
				c.fail("atomic.%s unsupported", f.Name())
			}
		case *ssa.Builtin: // close
			ch := c.val(fr, env, x.Call.Args[0])[0]
			upd := map[string]string{}
			c.updShared(upd, "chclosed", ch, "true", c.maxChans)
			c.addEdge(&bmcEdge{from: from, to: to, kind: "tau", upd: upd, desc: "close"})
		default:
			// abstract task: the result is non-nil, or (taskNil) nondeterministically nil
			rs := c.regsOf(fr, x)
			upd := map[string]string{}
			if len(rs) == 1 {
				if c.taskNil {
					upd["T!"+rs[0]] = "(ite nd@ 1 0)"
				} else {
					upd["T!"+rs[0]] = "1"
				}
			}
			c.addEdge(&bmcEdge{from: from, to: to, kind: "tau", upd: upd, desc: "task()"})
		}
	}
}

// ---- emission

type bmcThread struct {
	kind *bmcThreadKind
	name string
	startPC int
}

func subst(expr, tprefix string, k int) string {
	e := strings.ReplaceAll(expr, "T!", tprefix)
	return strings.ReplaceAll(e, "@", fmt.Sprintf("_%d", k))
}

func cmdBMC(args []string) {
	fs := flag.NewFlagSet("bmc", flag.ExitOnError)
	pkg := fs.String("pkg", "pkg/pool", "")
	harn := fs.String("harness", "", "harness function (the caller thread)")
	workers := fs.Int("workers", 2, "number of worker goroutines that may be spawned")
	K := fs.Int("k", 60, "unrolling depth")
	prop := fs.String("prop", "deadlock", "deadlock | lostworker | results | reach-end")
	out := fs.String("out", "", "")
	solver := fs.String("solver", "z3", "")
	taskNil := fs.Bool("tasknil", false, "tasks may return nil (Search)")
	timeout := fs.Int("timeout", 600, "seconds")
	fs.Parse(args)
	ld := loadRepo(harnessOverlay(), "verif")
	var target *ssa.Package
	for _, p := range ld.prog.AllPackages() {
		if p.Pkg.Path() == repoMod+"/"+*pkg {
			target = p
		}
	}
	fn := target.Func(*harn)
	if fn == nil {
		fmt.Fprintln(os.Stderr, "harness not found")
		os.Exit(2)
	}
	c := &bmcCompiler{prog: ld.prog, maxCells: 3, maxChans: 4, maxArrs: 3, maxLen: 3, maxObjs: 2, taskNil: *taskNil, objFields: map[string]int{}, goTargets: map[*ssa.Function]bool{}}
	caller := &bmcThreadKind{name: "caller", locDesc: map[int]string{}, final: map[int]bool{}}
	c.kinds = append(c.kinds, caller)
	c.cur = caller
	caller.entry = c.compileFunc(fn, nil, "c_", -1, nil)
	var workerKind *bmcThreadKind
	for g := range c.goTargets {
		wk := &bmcThreadKind{name: "worker", locDesc: map[int]string{}, final: map[int]bool{}}
		c.kinds = append(c.kinds, wk)
		c.cur = wk
		c.inline = 0
		wk.entry = c.compileFunc(g, nil, "w_", -1, nil)
		wk.params = c.paramVars(c.rootFrame)
		wk.idleLoc = -2
		for _, e := range wk.edges {
			if e.kind == "recv" && wk.idleLoc == -2 {
				wk.idleLoc = e.from
			}
		}
		workerKind = wk
	}
	if len(c.errs) > 0 {
		for _, e := range c.errs {
			fmt.Fprintln(os.Stderr, "bmc extraction error:", e)
		}
		os.Exit(2)
	}
	if os.Getenv("GOSYM_BMC_NOFUSE") == "" {
		for _, tk := range c.kinds {
			for round := 0; round < 4; round++ {
				tk.fuse()
			}
		}
		if workerKind != nil {
			workerKind.idleLoc = -2
			for _, e := range workerKind.edges {
				if e.kind == "recv" && workerKind.idleLoc == -2 {
					workerKind.idleLoc = e.from
				}
			}
		}
	}
	res := c.emitAndSolve(caller, workerKind, *workers, *K, *prop, *solver, *timeout)
	res["harness"] = *harn
	res["functions_encoded"] = c.funcsEncoded(fn)
	b, _ := json.MarshalIndent(res, "", " ")
	if *out != "" {
		os.WriteFile(*out, b, 0o644)
	}
	fmt.Fprintf(os.Stderr, "bmc %s prop=%s W=%d K=%d: %v (%.1fs) locations=%v edges=%v\n", *harn, *prop, *workers, *K, res["result"], res["solver_s"], res["locations"], res["edges"])
}

func (c *bmcCompiler) funcsEncoded(root *ssa.Function) []string {
	seen := map[string]bool{}
	var walk func(f *ssa.Function)
	walk = func(f *ssa.Function) {
		if f == nil || seen[f.String()] || f.Blocks == nil {
			return
		}
		seen[f.String()] = true
		for _, b := range f.Blocks {
			for _, ins := range b.Instrs {
				switch x := ins.(type) {
				case *ssa.Call:
					if g, ok := x.Call.Value.(*ssa.Function); ok && g.Pkg != nil && strings.HasPrefix(g.Pkg.Pkg.Path(), repoMod) {
						walk(g)
					}
				case *ssa.Go:
					if g, ok := x.Call.Value.(*ssa.Function); ok {
						walk(g)
					}
				}
			}
		}
	}
	walk(root)
	var out []string
	for k := range seen {
		out = append(out, k)
	}
	sort.Strings(out)
	return out
}

func (c *bmcCompiler) emitAndSolve(caller, worker *bmcThreadKind, W, K int, prop, solver string, timeoutS int) map[string]interface{} {
	var sb strings.Builder
	threads := []bmcThread{{kind: caller, name: "c"}}
	for i := 0; i < W && worker != nil; i++ {
		threads = append(threads, bmcThread{kind: worker, name: fmt.Sprintf("w%d", i)})
	}
	shared := append([]bmcVar{}, c.shared...)
	for i := 0; i < c.maxCells; i++ {
		shared = append(shared, bmcVar{fmt.Sprintf("cell_%d", i), "Int", "0"})
	}
	for i := 0; i < c.maxChans; i++ {
		shared = append(shared, bmcVar{fmt.Sprintf("chcap_%d", i), "Int", "0"}, bmcVar{fmt.Sprintf("chlen_%d", i), "Int", "0"}, bmcVar{fmt.Sprintf("chclosed_%d", i), "Bool", "false"})
	}
	for i := 0; i < c.maxArrs; i++ {
		shared = append(shared, bmcVar{fmt.Sprintf("arrlen_%d", i), "Int", "0"})
		for j := 0; j < c.maxLen; j++ {
			shared = append(shared, bmcVar{fmt.Sprintf("res_%d_%d", i, j), "Int", "0"})
		}
	}
	for _, n := range []string{"ncell", "nchan", "narr", "nobj", "nspawn"} {
		shared = append(shared, bmcVar{n, "Int", "0"})
	}
	shared = append(shared, bmcVar{"oob", "Bool", "false"}, bmcVar{"panicked", "Bool", "false"})
	// declare state
	decl := func(name, sort string, k int) { fmt.Fprintf(&sb, "(declare-const %s_%d %s)\n", name, k, sort) }
	for k := 0; k <= K; k++ {
		for _, v := range shared {
			decl(v.name, v.sort, k)
		}
		for _, t := range threads {
			decl(t.name+"_pc", "Int", k)
			for _, v := range t.kind.vars {
				decl(t.name+"_"+v.name, v.sort, k)
			}
		}
		decl("nd", "Bool", k)
		if k < K {
			decl("sched", "Int", k)
		}
	}
	// init
	for _, v := range shared {
		fmt.Fprintf(&sb, "(assert (= %s_0 %s))\n", v.name, v.init)
	}
	for ti, t := range threads {
		pc := -1
		if ti == 0 {
			pc = t.kind.entry
		}
		fmt.Fprintf(&sb, "(assert (= %s_pc_0 %s))\n", t.name, smtInt(pc))
		for _, v := range t.kind.vars {
			fmt.Fprintf(&sb, "(assert (= %s_%s_0 %s))\n", t.name, v.name, v.init)
		}
	}
	// global transitions: list of (guard_k, updates)
	type gtrans struct {
		guard string            // with @ for state k, thread prefixes resolved
		upd   map[string]string // full var name (without _k) -> expr with @
		desc  string
		priv  int // thread index (>=0) if this is a thread-private local step, else -1
	}
	var trans []gtrans
	curPriv := -1
	add := func(g string, upd map[string]string, desc string) {
		trans = append(trans, gtrans{g, upd, desc, curPriv})
	}
	res := func(e string, tp string) string { return strings.ReplaceAll(strings.ReplaceAll(e, "T!", tp+"_"), "S!", "") }
	for ti, t := range threads {
		for _, e := range t.kind.edges {
			curPriv = -1
			if edgeIsPrivate(e) {
				curPriv = ti
			}
			base := fmt.Sprintf("(and (= %s_pc@ %d) %s)", t.name, e.from, res(e.guard, t.name))
			mk := func() map[string]string {
				u := map[string]string{t.name + "_pc": fmt.Sprint(e.to)}
				for k, v := range e.upd {
					u[res(k, t.name)] = res(v, t.name)
				}
				if e.idxVar != "" {
					u[t.name+"_"+e.idxVar] = fmt.Sprint(e.idxVal)
				}
				return u
			}
			switch e.kind {
			case "tau", "panic":
				add(base, mk(), t.name+":"+e.desc+"@"+t.kind.locDesc[e.from])
			case "go":
				// start the next unstarted worker
				for wi, w := range threads[1:] {
					u := mk()
					u[w.name+"_pc"] = fmt.Sprint(w.kind.entry)
					for i, p := range w.kind.params {
						if i < len(e.payload) {
							u[w.name+"_"+p] = res(e.payload[i], t.name)
						}
					}
					u["nspawn"] = "(+ nspawn@ 1)"
					add(fmt.Sprintf("(and %s (= nspawn@ %d))", base, wi), u, t.name+":go->"+w.name)
				}
				add(fmt.Sprintf("(and %s (>= nspawn@ %d))", base, len(threads)-1), map[string]string{"panicked": "true"}, "too many workers for the bound")
			case "send":
				ch := res(e.ch, t.name)
				// buffered send
				ub := mk()
				for i := 0; i < c.maxChans; i++ {
					ub[fmt.Sprintf("chlen_%d", i)] = fmt.Sprintf("(ite (= %s %d) (+ chlen_%d@ 1) chlen_%d@)", ch, i, i, i)
				}
				add(fmt.Sprintf("(and %s (>= %s 0) (< %s %s) (not %s))", base, ch, selShared("chlen", ch, c.maxChans), selShared("chcap", ch, c.maxChans), selShared("chclosed", ch, c.maxChans)), ub, t.name+":send(buffered)@"+t.kind.locDesc[e.from])
				if len(e.payload) > 0 {
					// buffered channels with payload are not modelled: flag if ever used
					add(fmt.Sprintf("(and %s (>= %s 0) (> %s 0))", base, ch, selShared("chcap", ch, c.maxChans)), map[string]string{"panicked": "true"}, "buffered channel with payload (unmodelled)")
				}
				// send on closed channel panics
				add(fmt.Sprintf("(and %s (>= %s 0) %s)", base, ch, selShared("chclosed", ch, c.maxChans)), map[string]string{"panicked": "true"}, t.name+":send on closed channel")
				// rendezvous with every receive edge of other threads
				for _, t2 := range threads {
					if t2.name == t.name {
						continue
					}
					for _, e2 := range t2.kind.edges {
						if e2.kind != "recv" {
							continue
						}
						ch2 := res(e2.ch, t2.name)
						g := fmt.Sprintf("(and %s (= %s_pc@ %d) (= %s %s) (>= %s 0) (= %s 0) (not %s))", base, t2.name, e2.from, ch, ch2, ch, selShared("chcap", ch, c.maxChans), selShared("chclosed", ch, c.maxChans))
						u := mk()
						u[t2.name+"_pc"] = fmt.Sprint(e2.to)
						for i, d := range e2.dst {
							if i < len(e.payload) {
								u[t2.name+"_"+d] = res(e.payload[i], t.name)
							}
						}
						if e2.okVar != "" {
							u[t2.name+"_"+e2.okVar] = "true"
						}
						if e2.idxVar != "" {
							u[t2.name+"_"+e2.idxVar] = fmt.Sprint(e2.idxVal)
						}
						add(g, u, fmt.Sprintf("%s:%s => %s:%s", t.name, t.kind.locDesc[e.from], t2.name, t2.kind.locDesc[e2.from]))
					}
				}
			case "recv":
				ch := res(e.ch, t.name)
				// buffered receive (unit payload)
				ub := mk()
				for i := 0; i < c.maxChans; i++ {
					ub[fmt.Sprintf("chlen_%d", i)] = fmt.Sprintf("(ite (= %s %d) (- chlen_%d@ 1) chlen_%d@)", ch, i, i, i)
				}
				if e.okVar != "" {
					ub[t.name+"_"+e.okVar] = "true"
				}
				add(fmt.Sprintf("(and %s (>= %s 0) (> %s 0))", base, ch, selShared("chlen", ch, c.maxChans)), ub, t.name+":recv(buffered)@"+t.kind.locDesc[e.from])
				// receive from closed, empty channel
				uc := mk()
				if e.okVar != "" {
					uc[t.name+"_"+e.okVar] = "false"
				}
				add(fmt.Sprintf("(and %s (>= %s 0) %s (= %s 0))", base, ch, selShared("chclosed", ch, c.maxChans), selShared("chlen", ch, c.maxChans)), uc, t.name+":recv(closed)@"+t.kind.locDesc[e.from])
			}
		}
	}
	// all vars with possible updates
	allVars := map[string]string{}
	for _, v := range shared {
		allVars[v.name] = v.sort
	}
	for _, t := range threads {
		allVars[t.name+"_pc"] = "Int"
		for _, v := range t.kind.vars {
			allVars[t.name+"_"+v.name] = v.sort
		}
	}
	names := make([]string, 0, len(allVars))
	for n := range allVars {
		names = append(names, n)
	}
	sort.Strings(names)
	for _, tr := range trans {
		for v := range tr.upd {
			if _, ok := allVars[v]; !ok {
				c.errs = append(c.errs, "update of undeclared variable "+v+" in "+tr.desc)
			}
		}
	}
	at := func(e string, k int) string { return strings.ReplaceAll(e, "@", fmt.Sprintf("_%d", k)) }
	// enabledness of any transition at step k (as define-fun for reuse)
	for k := 0; k <= K; k++ {
		var gs []string
		for i, tr := range trans {
			fmt.Fprintf(&sb, "(define-fun en_%d_%d () Bool %s)\n", i, k, at(tr.guard, k))
			gs = append(gs, fmt.Sprintf("en_%d_%d", i, k))
		}
		fmt.Fprintf(&sb, "(define-fun anyen_%d () Bool (or %s))\n", k, strings.Join(gs, " "))
	}
	stutter := len(trans)
	for k := 0; k < K; k++ {
		fmt.Fprintf(&sb, "(assert (and (>= sched_%d 0) (<= sched_%d %d)))\n", k, k, stutter)
		for i := range trans {
			fmt.Fprintf(&sb, "(assert (=> (= sched_%d %d) en_%d_%d))\n", k, i, i, k)
		}
		// partial-order reduction: thread-private local steps are independent of every other transition and are
		// taken eagerly, lowest thread first
		if os.Getenv("GOSYM_BMC_NOPOR") == "" {
			privEn := make([][]string, len(threads))
			for i, tr := range trans {
				if tr.priv >= 0 {
					privEn[tr.priv] = append(privEn[tr.priv], fmt.Sprintf("en_%d_%d", i, k))
				}
			}
			for ti := range threads {
				if len(privEn[ti]) == 0 {
					privEn[ti] = []string{"false"}
				}
				fmt.Fprintf(&sb, "(define-fun priv_%d_%d () Bool (or %s))\n", ti, k, strings.Join(privEn[ti], " "))
			}
			for i, tr := range trans {
				upto := len(threads)
				if tr.priv >= 0 {
					upto = tr.priv
				}
				for ti := 0; ti < upto; ti++ {
					fmt.Fprintf(&sb, "(assert (=> (= sched_%d %d) (not priv_%d_%d)))\n", k, i, ti, k)
				}
			}
		}
		// stuttering only when nothing is enabled (so that deadlock states persist to the horizon)
		fmt.Fprintf(&sb, "(assert (=> (= sched_%d %d) (not anyen_%d)))\n", k, stutter, k)
		for _, v := range names {
			expr := v + fmt.Sprintf("_%d", k)
			for i := len(trans) - 1; i >= 0; i-- {
				if u, ok := trans[i].upd[v]; ok {
					expr = fmt.Sprintf("(ite (= sched_%d %d) %s %s)", k, i, at(u, k), expr)
				}
			}
			fmt.Fprintf(&sb, "(assert (= %s_%d %s))\n", v, k+1, expr)
		}
	}
	// properties at the horizon / any step
	callerDone := func(k int) string {
		var fs []string
		for l := range caller.final {
			fs = append(fs, fmt.Sprintf("(= c_pc_%d %d)", k, l))
		}
		if len(fs) == 0 {
			return "false"
		}
		return "(or " + strings.Join(fs, " ") + ")"
	}
	var goal string
	switch prop {
	case "deadlock": // a state in which the caller has not finished and nothing can move
		var gs []string
		for k := 0; k <= K; k++ {
			gs = append(gs, fmt.Sprintf("(and (not %s) (not anyen_%d) (not panicked_%d))", callerDone(k), k, k))
		}
		goal = "(or " + strings.Join(gs, " ") + ")"
	case "lostworker": // caller finished, system quiescent, some started worker is not back at its initial receive
		var gs []string
		for k := 0; k <= K; k++ {
			var ws []string
			for _, w := range threads[1:] {
				idle := worker.idleLoc
				ws = append(ws, fmt.Sprintf("(and (>= %s_pc_%d 0) (distinct %s_pc_%d %d))", w.name, k, w.name, k, idle))
			}
			gs = append(gs, fmt.Sprintf("(and %s (not anyen_%d) (or %s))", callerDone(k), k, strings.Join(ws, " ")))
		}
		goal = "(or " + strings.Join(gs, " ") + ")"
	case "results": // caller finished but some result slot of some array was not written exactly once, or an index was out of range
		var gs []string
		for k := 0; k <= K; k++ {
			var bad []string
			for a := 0; a < c.maxArrs; a++ {
				for i := 0; i < c.maxLen; i++ {
					bad = append(bad, fmt.Sprintf("(and (< %d narr_%d) (< %d arrlen_%d_%d) (distinct res_%d_%d_%d 1))", a, k, i, a, k, a, i, k))
				}
			}
			gs = append(gs, fmt.Sprintf("(and %s (or oob_%d %s))", callerDone(k), k, strings.Join(bad, " ")))
		}
		goal = "(or " + strings.Join(gs, " ") + ")"
	case "panic":
		goal = fmt.Sprintf("panicked_%d", K)
	case "unfinished": // completeness threshold: is there an execution that can still move after K steps?
		goal = fmt.Sprintf("anyen_%d", K)
	case "reach-end": // witness: the caller can finish within the bound
		goal = callerDone(K)
	}
	fmt.Fprintf(&sb, "(assert %s)\n(check-sat)\n", goal)
	// trace extraction
	fmt.Fprintf(&sb, "(get-value (")
	for k := 0; k < K; k++ {
		fmt.Fprintf(&sb, "sched_%d ", k)
	}
	fmt.Fprintf(&sb, "))\n")
	if len(c.errs) > 0 {
		for _, e := range c.errs {
			fmt.Fprintln(os.Stderr, "bmc error:", e)
		}
		os.Exit(2)
	}
	f, _ := os.CreateTemp("", "bmc-*.smt2")
	script := sb.String()
	if os.Getenv("GOSYM_BMC_INT") == "" {
		script = toBV(script, 16)
	}
	f.WriteString(script)
	f.Close()
	if os.Getenv("GOSYM_KEEP") == "" {
		defer os.Remove(f.Name())
	} else {
		fmt.Fprintln(os.Stderr, "smt file:", f.Name())
	}
	t0 := time.Now()
	cmd := exec.Command("timeout", fmt.Sprint(timeoutS), solver, f.Name())
	outb, _ := cmd.CombinedOutput()
	txt := string(outb)
	result := "unknown"
	lines := strings.Split(strings.TrimSpace(txt), "\n")
	if len(lines) > 0 {
		switch strings.TrimSpace(lines[0]) {
		case "sat":
			result = "sat"
		case "unsat":
			result = "unsat"
		}
	}
	if strings.Contains(txt, "(error") && result != "sat" && !strings.Contains(txt, "model is not available") {
		result = "unknown"
		for _, l := range lines {
			if strings.Contains(l, "(error") {
				fmt.Fprintln(os.Stderr, "solver:", l)
				break
			}
		}
	}
	var trace []string
	if result == "sat" {
		toks := tokenize(strings.Join(lines[1:], " "))
		for i := 0; i+3 < len(toks); i++ {
			if strings.HasPrefix(toks[i], "sched_") {
				var n int
				if strings.HasPrefix(toks[i+1], "#x") {
					fmt.Sscanf(toks[i+1][2:], "%x", &n)
				} else if strings.HasPrefix(toks[i+1], "#b") {
					fmt.Sscanf(toks[i+1][2:], "%b", &n)
				} else {
					fmt.Sscanf(toks[i+1], "%d", &n)
				}
				if n < len(trans) {
					trace = append(trace, trans[n].desc)
				} else {
					trace = append(trace, "(stutter)")
				}
			}
		}
	}
	return map[string]interface{}{"result": result, "prop": prop, "workers": W, "k": K, "solver_s": time.Since(t0).Seconds(),
		"locations": caller.nloc + func() int {
			if worker != nil {
				return worker.nloc
			}
			return 0
		}(), "edges": len(trans), "trace": trace, "smt_bytes": sb.Len()}
}

func smtInt(n int) string {
	if n < 0 {
		return fmt.Sprintf("(- %d)", -n)
	}
	return fmt.Sprint(n)
}

// ---- fusion of thread-private local steps (partial-order reduction at extraction time)

func edgeIsPrivate(e *bmcEdge) bool {
	if e.kind != "tau" {
		return false
	}
	if strings.Contains(e.guard, "_0@") || strings.Contains(e.guard, "nd@") {
		// guards over shared state are not private
	}
	for k, v := range e.upd {
		if strings.HasPrefix(k, "S!") {
			return false
		}
		if refsShared(v) {
			return false
		}
	}
	return !refsShared(e.guard)
}

// refsShared: does the expression mention a state variable that is not thread-local (T!...)?
func refsShared(expr string) bool {
	for i := 0; i < len(expr); i++ {
		if expr[i] != '@' {
			continue
		}
		j := i
		for j > 0 && (isIdent(expr[j-1])) {
			j--
		}
		name := expr[j:i]
		if !strings.HasPrefix(name, "T!") && name != "nd" {
			return true
		}
	}
	return false
}

func isIdent(b byte) bool {
	return b == '_' || b == '!' || (b >= '0' && b <= '9') || (b >= 'a' && b <= 'z') || (b >= 'A' && b <= 'Z')
}

// substVars replaces every state-variable reference X@ by m[X] when present.
func substVars(expr string, m map[string]string) string {
	if len(m) == 0 {
		return expr
	}
	var sb strings.Builder
	i := 0
	for i < len(expr) {
		if isIdent(expr[i]) && (i == 0 || !isIdent(expr[i-1])) {
			j := i
			for j < len(expr) && isIdent(expr[j]) {
				j++
			}
			if j < len(expr) && expr[j] == '@' {
				name := expr[i:j]
				if r, ok := m[name]; ok {
					sb.WriteString(r)
				} else {
					sb.WriteString(expr[i : j+1])
				}
				i = j + 1
				continue
			}
			sb.WriteString(expr[i:j])
			i = j
			continue
		}
		sb.WriteByte(expr[i])
		i++
	}
	return sb.String()
}

// fuse rewrites the thread kind so that chains of private tau edges become single edges between stable locations.
func (tk *bmcThreadKind) fuse() {
	out := map[int][]*bmcEdge{}
	for _, e := range tk.edges {
		out[e.from] = append(out[e.from], e)
	}
	stable := map[int]bool{tk.entry: true}
	for _, e := range tk.edges {
		if !edgeIsPrivate(e) {
			stable[e.from] = true
			stable[e.to] = true
		}
	}
	for l := range tk.final {
		stable[l] = true
	}
	var fused []*bmcEdge
	type st struct {
		loc   int
		guard []string
		sub   map[string]string
		depth int
		seen  map[int]bool
	}
	for l := range stable {
		var priv, vis []*bmcEdge
		for _, e := range out[l] {
			if edgeIsPrivate(e) {
				priv = append(priv, e)
			} else {
				vis = append(vis, e)
			}
		}
		fused = append(fused, vis...)
		if len(priv) == 0 {
			continue
		}
		stack := []st{{loc: l, sub: map[string]string{}, seen: map[int]bool{l: true}}}
		for len(stack) > 0 {
			s := stack[len(stack)-1]
			stack = stack[:len(stack)-1]
			for _, e := range out[s.loc] {
				if !edgeIsPrivate(e) {
					continue
				}
				g := substVars(e.guard, s.sub)
				ng := append(append([]string{}, s.guard...), g)
				ns := map[string]string{}
				for k, v := range s.sub {
					ns[k] = v
				}
				for k, v := range e.upd {
					ns[k] = substVars(v, s.sub)
				}
				if stable[e.to] || s.seen[e.to] || s.depth > 60 {
					stable[e.to] = true
					fe := &bmcEdge{from: l, to: e.to, kind: "tau", guard: "(and true " + strings.Join(ng, " ") + ")", upd: ns, desc: "local*"}
					fused = append(fused, fe)
					continue
				}
				seen := map[int]bool{}
				for k := range s.seen {
					seen[k] = true
				}
				seen[e.to] = true
				stack = append(stack, st{loc: e.to, guard: ng, sub: ns, depth: s.depth + 1, seen: seen})
			}
		}
	}
	// locations that became stable during fusion need their own outgoing fused edges: iterate to a fixpoint
	tk.edges = fused
	for i, e := range tk.edges {
		e.id = i
	}
}

// toBV rewrites the Int-based script into bit-vectors of width w (signed comparisons), which z3 bit-blasts.
func toBV(script string, w int) string {
	toks := tokenize(script)
	var sb strings.Builder
	bvnum := func(n string) string { return fmt.Sprintf("(_ bv%s %d)", n, w) }
	isNum := func(s string) bool {
		if s == "" {
			return false
		}
		for _, ch := range s {
			if ch < '0' || ch > '9' {
				return false
			}
		}
		return true
	}
	for i := 0; i < len(toks); i++ {
		t := toks[i]
		prev := ""
		if i > 0 {
			prev = toks[i-1]
		}
		switch {
		case t == "Int":
			fmt.Fprintf(&sb, "(_ BitVec %d) ", w)
		case isNum(t) && !(prev == "_" || (i >= 2 && toks[i-2] == "_")):
			sb.WriteString(bvnum(t) + " ")
		case prev == "(" && t == "+":
			sb.WriteString("bvadd ")
		case prev == "(" && t == "*":
			sb.WriteString("bvmul ")
		case prev == "(" && t == "-":
			// unary or binary: count operands
			depth, n := 0, 0
			for j := i + 1; j < len(toks); j++ {
				if toks[j] == "(" {
					if depth == 0 {
						n++
					}
					depth++
				} else if toks[j] == ")" {
					if depth == 0 {
						break
					}
					depth--
				} else if depth == 0 {
					n++
				}
			}
			if n == 1 {
				sb.WriteString("bvneg ")
			} else {
				sb.WriteString("bvsub ")
			}
		case prev == "(" && t == "<":
			sb.WriteString("bvslt ")
		case prev == "(" && t == "<=":
			sb.WriteString("bvsle ")
		case prev == "(" && t == ">":
			sb.WriteString("bvsgt ")
		case prev == "(" && t == ">=":
			sb.WriteString("bvsge ")
		default:
			sb.WriteString(t + " ")
		}
		if t == ")" && i+1 < len(toks) && toks[i+1] == "(" && strings.Count(sb.String()[max(0, sb.Len()-200):], "\n") == 0 {
			// keep lines reasonably short
		}
	}
	return strings.ReplaceAll(sb.String(), ") (assert", ")\n(assert")
}
