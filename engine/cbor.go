package main

// Model of fxamacker/cbor: Marshal = opaque injective token, Unmarshal(token) = deep copy,
// Unmarshal(arbitrary bytes) = error | havoc of the destination by its Go type.

import (
	"crypto/sha256"
	"fmt"
	"go/types"
	"strings"
)

const cborPkg = "github.com/fxamacker/cbor/v2."
const cborTokenLen = 12

type cborToken struct {
	id   int
	b    []*Term
	val  Value
	typ  types.Type
	conc bool
}

func (in *Interp) deepCopy(v Value, memo map[*Cell]*Cell) Value {
	switch x := v.(type) {
	case *StructV:
		f := make([]Value, len(x.F))
		for i := range f {
			f[i] = in.deepCopy(x.F[i], memo)
		}
		return &StructV{f}
	case *ArrV:
		e := make([]Value, len(x.E))
		for i := range e {
			e[i] = in.deepCopy(x.E[i], memo)
		}
		return &ArrV{e}
	case PtrV:
		if x.C == nil {
			return x
		}
		return PtrV{C: in.copyCell(x.C, memo), Path: x.Path}
	case SliceV:
		if x.C == nil {
			return x
		}
		return SliceV{C: in.copyCell(x.C, memo), Path: x.Path, Off: x.Off, Len: x.Len, Cap: x.Cap}
	case MapV:
		if x.M == nil {
			return x
		}
		in.cellSeq++
		m := &MapObj{ID: in.cellSeq}
		for i := range x.M.Keys {
			if !x.M.Del[i] {
				m.Keys = append(m.Keys, in.deepCopy(x.M.Keys[i], memo))
				m.Vals = append(m.Vals, in.deepCopy(x.M.Vals[i], memo))
				m.Del = append(m.Del, false)
			}
		}
		return MapV{m}
	case IfaceV:
		if x.T == nil {
			return x
		}
		return IfaceV{T: x.T, V: in.deepCopy(x.V, memo)}
	case TupleV:
		t := make(TupleV, len(x))
		for i := range t {
			t[i] = in.deepCopy(x[i], memo)
		}
		return t
	}
	return v // terms, strings, model values (immutable), funcs, chans
}

func (in *Interp) copyCell(c *Cell, memo map[*Cell]*Cell) *Cell {
	if nc, ok := memo[c]; ok {
		return nc
	}
	nc := in.newCell(c.T, nil)
	nc.Tag = c.Tag
	memo[c] = nc
	nc.V = in.deepCopy(c.V, memo)
	return nc
}

func (in *Interp) cborTokens() map[string]*cborToken {
	m, ok := in.misc["cbor"].(map[string]*cborToken)
	if !ok {
		m = map[string]*cborToken{}
		in.misc["cbor"] = m
	}
	return m
}

func tokKey(b []*Term) string {
	var sb strings.Builder
	for _, t := range b {
		fmt.Fprintf(&sb, "%d,", t.id)
	}
	return sb.String()
}

// snapConcrete serialises a snapshot if all its leaves are constants.
func snapConcrete(s *Snap, sb *strings.Builder) bool {
	sb.WriteString(s.Kind)
	sb.WriteByte('{')
	sb.WriteString(s.Tag)
	if s.T != nil {
		if !s.T.IsConst() {
			return false
		}
		sb.WriteString(s.T.C.String())
	}
	for _, t := range s.S {
		if !t.IsConst() {
			return false
		}
		sb.WriteString(t.C.Text(16))
		sb.WriteByte('.')
	}
	for _, k := range s.Keys {
		if !snapConcrete(k, sb) {
			return false
		}
	}
	sb.WriteByte('|')
	for _, k := range s.Sub {
		if !snapConcrete(k, sb) {
			return false
		}
	}
	sb.WriteByte('}')
	return true
}

func (in *Interp) cborMarshal(v Value) Value {
	iv, ok := v.(IfaceV)
	if !ok || iv.T == nil {
		// cbor encodes nil as 0xf6
		return tup(in.byteSlice([]*Term{BVConst64(0xf6, 8)}), nilErr)
	}
	toks := in.cborTokens()
	seq, _ := in.misc["cborSeq"].(int)
	in.misc["cborSeq"] = seq + 1
	id := seq + 1
	tk := &cborToken{id: id, typ: iv.T, val: in.deepCopy(iv.V, map[*Cell]*Cell{})}
	s := in.snapshot(tk.val, 0, map[*Cell]int{})
	var sb strings.Builder
	sb.WriteString(iv.T.String())
	if snapConcrete(s, &sb) {
		// concrete value: concrete token (a digest of the canonical form), no axioms needed
		d := sha256.Sum256([]byte(sb.String()))
		for i := 0; i < cborTokenLen; i++ {
			tk.b = append(tk.b, BVConst64(uint64(d[i]), 8))
		}
		tk.conc = true
		toks[tokKey(tk.b)] = tk
		in.stubsSeen["cbor-model:Marshal(token)"] = true
		return tup(in.byteSlice(tk.b), nilErr)
	}
	for i := 0; i < cborTokenLen; i++ {
		tk.b = append(tk.b, Var(fmt.Sprintf("cbor%d[%d]", id, i), BV(8)))
	}
	// injectivity of the encoding: tokens of distinct Marshal calls are distinct byte strings unless the
	// values are structurally identical snapshots
	for _, o := range toks {
		if !types.Identical(o.typ, tk.typ) {
			in.assumeAxiom(Not(streamEq(o.b, tk.b)))
			continue
		}
		so := in.snapshot(o.val, 0, map[*Cell]int{})
		same := in.snapEq(s, so)
		in.assumeAxiom(Eq(same, streamEq(o.b, tk.b)))
	}
	toks[tokKey(tk.b)] = tk
	in.stubsSeen["cbor-model:Marshal(token)"] = true
	return tup(in.byteSlice(tk.b), nilErr)
}

func (in *Interp) cborLookup(data []*Term) *cborToken {
	if len(data) != cborTokenLen {
		return nil
	}
	return in.cborTokens()[tokKey(data)]
}

// assignDecoded stores src (of dynamic type *T or T) into the destination pointer respecting Go/cbor rules:
// exported fields of a top-level struct are overwritten, unexported ones keep the destination's value.
func (in *Interp) assignDecoded(dst PtrV, dstElem types.Type, src Value) {
	if st, ok := dstElem.Underlying().(*types.Struct); ok {
		if _, isModel := modelZero[typeKey(dstElem)]; !isModel {
			cur, ok1 := in.load(dst).(*StructV)
			sv, ok2 := src.(*StructV)
			if ok1 && ok2 && len(cur.F) == len(sv.F) && !in.hasMethod(types.NewPointer(dstElem), "UnmarshalBinary") {
				f := make([]Value, len(cur.F))
				for i := range f {
					if st.Field(i).Exported() {
						f[i] = sv.F[i]
						// `cbor:",omitempty"`: an empty value is not on the wire, the decoder leaves the destination's field alone
						if strings.Contains(reflectTag(st.Tag(i), "cbor"), ",omitempty") {
							if c := cborEmpty(sv.F[i]); c != nil && !c.IsFalse() && (c.IsTrue() || in.branch(c)) {
								f[i] = cur.F[i]
							}
						}
					} else {
						f[i] = cur.F[i]
					}
				}
				in.store(dst, &StructV{f})
				return
			}
		}
	}
	in.store(dst, src)
}

func (in *Interp) cborUnmarshal(dataV Value, dstV Value) Value {
	dst, ok := dstV.(IfaceV)
	if !ok || dst.T == nil {
		return in.mkError("cbor: Unmarshal(nil)", nil)
	}
	pt, isPtr := dst.T.Underlying().(*types.Pointer)
	dp, _ := dst.V.(PtrV)
	if !isPtr || dp.C == nil {
		return in.mkError("cbor: Unmarshal(non-pointer or nil pointer)", nil)
	}
	// destination is a pointer to a pointer: decode into the pointee (allocated if nil), as the real decoder does
	if inner, ok := pt.Elem().Underlying().(*types.Pointer); ok {
		ip, _ := in.load(dp).(PtrV)
		if ip.C == nil {
			ip = PtrV{C: in.newCell(inner.Elem(), in.zero(inner.Elem()))}
			in.store(dp, ip)
		}
		return in.cborUnmarshal(dataV, IfaceV{T: pt.Elem(), V: ip})
	}
	var data []*Term
	if s, ok := dataV.(SliceV); ok && s.C != nil {
		data = in.bytesOf(s)
	}
	if tk := in.cborLookup(data); tk != nil {
		// honest token
		srcT := tk.typ
		src := in.deepCopy(tk.val, map[*Cell]*Cell{})
		if sp, ok := srcT.Underlying().(*types.Pointer); ok {
			if p, ok := src.(PtrV); ok && p.C != nil {
				src = in.load(p)
				srcT = sp.Elem()
			}
		}
		if types.Identical(srcT, pt.Elem()) {
			in.assignDecoded(dp, pt.Elem(), src)
			return nilErr
		}
		// a token of another type: the real decoder would try field-by-field; model as arbitrary outcome
	}
	if res, ok := in.havocTokenDecode(data, dp, pt.Elem()); ok {
		return res
	}
	in.stubsSeen["cbor-model:Unmarshal(havoc)"] = true
	if len(data) == 0 {
		return in.mkError("EOF", nil)
	}
	// arbitrary bytes: decoding fails, or succeeds with arbitrary content of the destination type
	k, _ := in.misc["cborHavoc"].(int)
	in.misc["cborHavoc"] = k + 1
	okv := in.freshVar(fmt.Sprintf("cbor.decode%d.ok", k), BoolSort)
	if !in.branch(okv) {
		return in.mkError("cbor: cannot unmarshal", nil)
	}
	var res Value = nilErr
	func() {
		defer func() {
			if r := recover(); r != nil {
				if df, ok := r.(decodeFail); ok {
					res = in.mkError("cbor: "+df.why, nil)
					return
				}
				panic(r)
			}
		}()
		in.havocDecodeInto(dp, pt.Elem(), fmt.Sprintf("dec%d", k), 0)
	}()
	return res
}

func init() {
	intrinsics[cborPkg+"Marshal"] = func(in *Interp, fr *Frame, a []Value) Value { return in.cborMarshal(a[0]) }
	intrinsics[cborPkg+"Unmarshal"] = func(in *Interp, fr *Frame, a []Value) Value { return in.cborUnmarshal(a[0], a[1]) }
}

// reflectTag extracts the value of key from a struct tag (reflect.StructTag.Get without the reflect package's quirks).
func reflectTag(tag, key string) string {
	for _, part := range strings.Fields(tag) {
		if strings.HasPrefix(part, key+":\"") {
			v := strings.TrimPrefix(part, key+":\"")
			if j := strings.Index(v, "\""); j >= 0 {
				return v[:j]
			}
		}
	}
	return ""
}

// cborEmpty: the condition under which the encoder treats v as empty for omitempty (false, 0, nil, zero length).
func cborEmpty(v Value) *Term {
	switch x := v.(type) {
	case nil:
		return True
	case *Term:
		if x.S == BoolSort {
			return Not(x)
		}
		if x.S.K == SBV {
			return Eq(x, BVConst64(0, x.S.W))
		}
	case StrV:
		return cbBool(len(x.B) == 0)
	case SliceV:
		return cbBool(x.C == nil || x.Len == 0)
	case PtrV:
		return cbBool(x.C == nil)
	case IfaceV:
		return cbBool(x.T == nil)
	case MapV:
		if x.M == nil {
			return True
		}
		for _, d := range x.M.Del {
			if !d {
				return False
			}
		}
		return True
	}
	return False
}

func cbBool(b bool) *Term {
	if b {
		return True
	}
	return False
}
