package main

// Long-lived SMT solver process (z3 -in / z3-new -in / cvc5 --incremental).

import (
	"bufio"
	"fmt"
	"io"
	"math/big"
	"os"
	"os/exec"
	"strings"
	"time"
)

type Result int

const (
	Unsat Result = iota
	Sat
	Unknown
)

func (r Result) String() string { return [...]string{"unsat", "sat", "unknown"}[r] }

type SolverStats struct {
	Queries  int
	Sat      int
	Unsat    int
	Unknown  int
	Seconds  float64
	Errors   int
	MaxQuery float64
}

type Solver struct {
	name    string
	cmd     *exec.Cmd
	in      io.WriteCloser
	out     *bufio.Reader
	em      *Emitter
	Stats   SolverStats
	timeout int // ms per query
	log     io.Writer
	asserted int
}

func solverArgv(name string, timeoutMs int) []string {
	switch name {
	case "z3":
		return []string{"z3", "-in", fmt.Sprintf("-t:%d", timeoutMs)}
	case "z3-new":
		return []string{"z3-new", "-in", fmt.Sprintf("-t:%d", timeoutMs)}
	case "cvc5":
		return []string{"cvc5", "--incremental", "--produce-models", fmt.Sprintf("--tlimit-per=%d", timeoutMs)}
	}
	panic("unknown solver " + name)
}

func NewSolver(name string, timeoutMs int) *Solver {
	s := &Solver{name: name, timeout: timeoutMs}
	s.start()
	return s
}

func (s *Solver) start() {
	argv := solverArgv(s.name, s.timeout)
	s.cmd = exec.Command(argv[0], argv[1:]...)
	in, _ := s.cmd.StdinPipe()
	out, _ := s.cmd.StdoutPipe()
	s.cmd.Stderr = os.Stderr
	if err := s.cmd.Start(); err != nil {
		panic(err)
	}
	s.in = in
	s.out = bufio.NewReaderSize(out, 1<<20)
	s.em = NewEmitter()
	s.asserted = 0
	if s.name == "cvc5" {
		s.send("(set-logic ALL)\n")
	}
	if os.Getenv("GOSYM_SMTLOG") != "" && s.log == nil {
		f, _ := os.Create(os.Getenv("GOSYM_SMTLOG"))
		s.log = f
	}
}

func (s *Solver) send(txt string) {
	if s.log != nil {
		io.WriteString(s.log, txt)
	}
	io.WriteString(s.in, txt)
}

func (s *Solver) Close() {
	if s.cmd != nil {
		s.in.Close()
		s.cmd.Process.Kill()
		s.cmd.Wait()
		s.cmd = nil
	}
}

// Reset drops all assertions and definitions.
func (s *Solver) Reset() {
	s.send("(reset)\n")
	if s.name == "cvc5" {
		s.send("(set-logic ALL)\n")
	}
	s.em = NewEmitter()
	s.asserted = 0
}

func (s *Solver) Push() { s.send("(push 1)\n"); s.em.PushScope() }
func (s *Solver) Pop()  { s.send("(pop 1)\n"); s.em.PopScope() }

// Assert adds t at base level (persists until Reset).
func (s *Solver) Assert(t *Term) {
	if t.IsTrue() {
		return
	}
	s.send(s.em.Define(t))
	s.send("(assert " + s.em.ref(t) + ")\n")
	s.asserted++
}

func (s *Solver) readLine() (string, error) {
	type res struct {
		l   string
		err error
	}
	ch := make(chan res, 1)
	go func() {
		l, err := s.out.ReadString('\n')
		ch <- res{l, err}
	}()
	select {
	case r := <-ch:
		return strings.TrimSpace(r.l), r.err
	case <-time.After(time.Duration(s.timeout)*time.Millisecond + 20*time.Second):
		return "", fmt.Errorf("solver watchdog timeout")
	}
}

// Check decides satisfiability of (base assertions ∧ extra...).
func (s *Solver) Check(extra ...*Term) Result {
	for _, t := range extra {
		s.send(s.em.Define(t))
	}
	s.send("(push 1)\n")
	for _, t := range extra {
		s.send("(assert " + s.em.ref(t) + ")\n")
	}
	r := s.checkSat()
	s.send("(pop 1)\n")
	return r
}

func (s *Solver) checkSat() Result {
	t0 := time.Now()
	s.send("(check-sat)\n")
	var r Result = Unknown
	for {
		l, err := s.readLine()
		if err != nil {
			s.Stats.Errors++
			fmt.Fprintln(os.Stderr, "solver failure:", err)
			s.Close()
			s.start()
			r = Unknown
			panic(engineError{"solver died/timeout; path abandoned: " + err.Error()})
		}
		if l == "" {
			continue
		}
		if l == "sat" {
			r = Sat
			break
		}
		if l == "unsat" {
			r = Unsat
			break
		}
		if l == "unknown" || strings.HasPrefix(l, "timeout") {
			r = Unknown
			break
		}
		if strings.HasPrefix(l, "(error") {
			s.Stats.Errors++
			fmt.Fprintln(os.Stderr, "solver error:", l)
			// keep reading: z3 still prints an answer for check-sat
			continue
		}
	}
	d := time.Since(t0).Seconds()
	s.Stats.Queries++
	s.Stats.Seconds += d
	if d > s.Stats.MaxQuery {
		s.Stats.MaxQuery = d
	}
	switch r {
	case Sat:
		s.Stats.Sat++
	case Unsat:
		s.Stats.Unsat++
	default:
		s.Stats.Unknown++
	}
	return r
}

// CheckModel is like Check but on Sat also returns values for vars.
func (s *Solver) CheckModel(vars []*Term, extra ...*Term) (Result, map[string]*big.Int) {
	for _, t := range extra {
		s.send(s.em.Define(t))
	}
	for _, v := range vars {
		s.send(s.em.Define(v))
	}
	s.send("(push 1)\n")
	for _, t := range extra {
		s.send("(assert " + s.em.ref(t) + ")\n")
	}
	r := s.checkSat()
	var m map[string]*big.Int
	if r == Sat && len(vars) > 0 {
		m = s.getValues(vars)
	}
	s.send("(pop 1)\n")
	return r, m
}

func (s *Solver) getValues(vars []*Term) map[string]*big.Int {
	m := map[string]*big.Int{}
	// one get-value per chunk to keep lines manageable
	for i := 0; i < len(vars); i += 50 {
		j := i + 50
		if j > len(vars) {
			j = len(vars)
		}
		var sb strings.Builder
		sb.WriteString("(get-value (")
		for _, v := range vars[i:j] {
			sb.WriteString(smtSym(v.Name))
			sb.WriteByte(' ')
		}
		sb.WriteString("))\n")
		s.send(sb.String())
		txt := s.readSexp()
		toks := tokenize(txt)
		// ((name value) (name value) ...)
		pos := 1
		for _, v := range vars[i:j] {
			if pos >= len(toks) || toks[pos] != "(" {
				break
			}
			pos++ // (
			pos++ // name
			val, np := parseValue(toks, pos, v.S)
			pos = np
			if pos < len(toks) && toks[pos] == ")" {
				pos++
			}
			m[v.Name] = val
		}
	}
	return m
}

func (s *Solver) readSexp() string {
	var sb strings.Builder
	depth := 0
	started := false
	for {
		l, err := s.readLine()
		if err != nil {
			return sb.String()
		}
		sb.WriteString(l)
		sb.WriteByte(' ')
		inq := false
		for _, c := range l {
			if c == '|' {
				inq = !inq
			}
			if inq {
				continue
			}
			if c == '(' {
				depth++
				started = true
			} else if c == ')' {
				depth--
			}
		}
		if started && depth <= 0 {
			return sb.String()
		}
	}
}

func tokenize(s string) []string {
	var toks []string
	i := 0
	for i < len(s) {
		c := s[i]
		switch {
		case c == ' ' || c == '\n' || c == '\t' || c == '\r':
			i++
		case c == '(' || c == ')':
			toks = append(toks, string(c))
			i++
		case c == '|':
			j := i + 1
			for j < len(s) && s[j] != '|' {
				j++
			}
			toks = append(toks, s[i:j+1])
			i = j + 1
		default:
			j := i
			for j < len(s) && !strings.ContainsRune(" \n\t\r()", rune(s[j])) {
				j++
			}
			toks = append(toks, s[i:j])
			i = j
		}
	}
	return toks
}

// parseValue parses a numeric/bool/bv value starting at toks[pos]; returns value (Reals are truncated
// numerators: callers needing rationals use parseRat) and next position.
func parseValue(toks []string, pos int, s Sort) (*big.Int, int) {
	r, np := parseRat(toks, pos)
	if r == nil {
		return big.NewInt(0), np
	}
	if r.IsInt() {
		return new(big.Int).Set(r.Num()), np
	}
	q := new(big.Int).Quo(r.Num(), r.Denom())
	return q, np
}

func parseRat(toks []string, pos int) (*big.Rat, int) {
	if pos >= len(toks) {
		return nil, pos
	}
	t := toks[pos]
	switch {
	case t == "true":
		return big.NewRat(1, 1), pos + 1
	case t == "false":
		return big.NewRat(0, 1), pos + 1
	case strings.HasPrefix(t, "#x"):
		v, _ := new(big.Int).SetString(t[2:], 16)
		return new(big.Rat).SetInt(v), pos + 1
	case strings.HasPrefix(t, "#b"):
		v, _ := new(big.Int).SetString(t[2:], 2)
		return new(big.Rat).SetInt(v), pos + 1
	case t == "(":
		// (- x) | (/ a b) | (_ bvN w)
		op := toks[pos+1]
		switch op {
		case "-":
			a, np := parseRat(toks, pos+2)
			if np < len(toks) && toks[np] == ")" {
				if a == nil {
					return nil, np + 1
				}
				return new(big.Rat).Neg(a), np + 1
			}
			b, np2 := parseRat(toks, np)
			if a != nil && b != nil {
				return new(big.Rat).Sub(a, b), np2 + 1
			}
			return nil, np2 + 1
		case "/":
			a, np := parseRat(toks, pos+2)
			b, np2 := parseRat(toks, np)
			if a == nil || b == nil || b.Sign() == 0 {
				return nil, np2 + 1
			}
			return new(big.Rat).Quo(a, b), np2 + 1
		case "_":
			// (_ bv123 32)
			v, _ := new(big.Int).SetString(strings.TrimPrefix(toks[pos+2], "bv"), 10)
			return new(big.Rat).SetInt(v), pos + 5
		default:
			// skip balanced (e.g. root-obj for algebraic numbers)
			d := 0
			i := pos
			for i < len(toks) {
				if toks[i] == "(" {
					d++
				} else if toks[i] == ")" {
					d--
					if d == 0 {
						break
					}
				}
				i++
			}
			return nil, i + 1
		}
	default:
		r, ok := new(big.Rat).SetString(strings.TrimSuffix(t, "?"))
		if !ok {
			return nil, pos + 1
		}
		return r, pos + 1
	}
}

// OneShot runs a self-contained script (after reset) and returns the result; used for nonlinear queries.
func (s *Solver) OneShot(asserts []*Term, vars []*Term) (Result, map[string]*big.Rat) {
	s.Reset()
	for _, a := range asserts {
		s.send(s.em.Define(a))
		s.send("(assert " + s.em.ref(a) + ")\n")
	}
	for _, v := range vars {
		s.send(s.em.Define(v))
	}
	r := s.checkSat()
	var m map[string]*big.Rat
	if r == Sat && len(vars) > 0 {
		m = map[string]*big.Rat{}
		for _, v := range vars {
			s.send("(get-value (" + smtSym(v.Name) + "))\n")
			toks := tokenize(s.readSexp())
			if len(toks) > 3 {
				rv, _ := parseRat(toks, 3)
				if rv != nil {
					m[v.Name] = rv
				}
			}
		}
	}
	s.Reset()
	return r, m
}
