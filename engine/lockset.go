package main

// Lockset bookkeeping for C17: accesses to the fields of a watched struct (and to maps reachable from its
// fields) are recorded together with the state of the struct's own mutex.

import (
	"fmt"
	"go/types"
	"sort"
	"strings"
)

type accessOwner struct {
	C     *Cell
	Field int
}

type accessEvent struct {
	Field string
	Write bool
	Held  bool
	Op    string
	Pos   string
}

func (in *Interp) watchInfo(c *Cell) (st *types.Struct, mtxIdx int) {
	st, _ = c.T.Underlying().(*types.Struct)
	mtxIdx = -1
	if st != nil {
		for i := 0; i < st.NumFields(); i++ {
			if typeKey(st.Field(i).Type()) == "sync.Mutex" {
				mtxIdx = i
			}
		}
	}
	return
}

func (in *Interp) mutexHeld(c *Cell) bool {
	st, mi := in.watchInfo(c)
	if st == nil || mi < 0 {
		return false
	}
	sv, ok := c.V.(*StructV)
	if !ok {
		return false
	}
	m, ok := sv.F[mi].(*MutexM)
	return ok && m.Held
}

func (in *Interp) logAccess(p PtrV, write bool) {
	op, _ := in.misc["op"].(string)
	if op == "" {
		return
	}
	st, mi := in.watchInfo(p.C)
	if st == nil || len(p.Path) == 0 || p.Path[0] == mi {
		return
	}
	in.recordAccess(p.C, p.Path[0], write)
}

func (in *Interp) recordAccess(c *Cell, field int, write bool) {
	op, _ := in.misc["op"].(string)
	if op == "" {
		return
	}
	st, _ := in.watchInfo(c)
	ev := accessEvent{Field: st.Field(field).Name(), Write: write, Held: in.mutexHeld(c), Op: op, Pos: in.posString()}
	globalAccessLog = append(globalAccessLog, ev)
}

// accesses are accumulated over all paths of one harness run (operations on different paths may run
// concurrently in a real execution just as well)
var globalAccessLog []accessEvent
var globalLocksetLabel string

// tagMaps associates maps loaded from watched fields with their owner (called after a load).
func (in *Interp) tagOwner(v Value, owner *accessOwner) {
	if m, ok := v.(MapV); ok && m.M != nil && m.M.Owner == nil {
		m.M.Owner = owner
	}
}

// locksetViolations: pairs of accesses to the same field, at least one a write, not both under the lock.
// Any two API operations (also two instances of the same one) may run concurrently.
func locksetViolations() []string {
	log := globalAccessLog
	type key struct {
		f, op string
		w, h  bool
	}
	seen := map[key]string{}
	for _, e := range log {
		k := key{e.Field, e.Op, e.Write, e.Held}
		if _, ok := seen[k]; !ok {
			seen[k] = e.Pos
		}
	}
	var ks []key
	for k := range seen {
		ks = append(ks, k)
	}
	sort.Slice(ks, func(i, j int) bool { return fmt.Sprint(ks[i]) < fmt.Sprint(ks[j]) })
	out := map[string]bool{}
	for _, a := range ks {
		for _, b := range ks {
			if a.f != b.f || !(a.w || b.w) || (a.h && b.h) {
				continue
			}
			if !a.w && b.w {
				continue // report from the writer's side
			}
			kind := func(k key) string {
				s := "read"
				if k.w {
					s = "write"
				}
				if !k.h {
					s += " without lock"
				} else {
					s += " under lock"
				}
				return s
			}
			out[fmt.Sprintf("field %s: %s in %s (%s) vs %s in %s (%s)", a.f, kind(a), a.op, seen[a], kind(b), b.op, seen[b])] = true
		}
	}
	var res []string
	for k := range out {
		res = append(res, k)
	}
	sort.Strings(res)
	return res
}

func init() {
	reg := func(name string, f Intrinsic) { intrinsics[vsymPkg+name] = f }
	reg("Watch", func(in *Interp, fr *Frame, a []Value) Value {
		iv := a[0].(IfaceV)
		p, ok := iv.V.(PtrV)
		if !ok || p.C == nil {
			in.fail("Watch needs a pointer")
		}
		p.C.Watch = true
		return nil
	})
	reg("Op", func(in *Interp, fr *Frame, a []Value) Value {
		in.misc["op"] = argStr(a[0])
		return nil
	})
	reg("AssertLockset", func(in *Interp, fr *Frame, a []Value) Value {
		globalLocksetLabel = argStr(a[0])
		return nil
	})
}

func shortField(v string) string {
	// "field X: write without lock in Stop (...) vs ..." -> "X write-without-lock Stop / read ... Accept"
	parts := strings.SplitN(v, " (", 2)
	return parts[0]
}
