package main

type FieldState struct{}

func (f *FieldState) genericityList() []string { return nil }
