package main
