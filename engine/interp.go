package main

// Symbolic interpreter for go/ssa. Forking by re-execution under a decision prefix.

import (
	"fmt"
	"go/constant"
	"go/token"
	"go/types"
	"math/big"
	"os"
	"sort"
	"strings"

	"golang.org/x/tools/go/ssa"
)

type Intrinsic func(in *Interp, fr *Frame, args []Value) Value

// control-flow exceptions
type goPanic struct {
	V   Value
	Msg string
	Pos string
}
type engineError struct{ Msg string }
type pathEnd struct{ Why string } // infeasible / assumption false / explicit stop

type Frame struct {
	fn       *ssa.Function
	env      map[ssa.Value]Value
	free     []Value
	defers   []func()
	visits   map[*ssa.BasicBlock]int
	parent   *Frame
	panicking *goPanic
	recovered bool
	results  Value
}

type Obligation struct {
	Harness string         `json:"harness"`
	Label   string         `json:"label"`
	Kind    string         `json:"kind"` // assert | nopanic | witness | identity | noalloc
	Verdict string         `json:"verdict"`
	Path    []int          `json:"path,omitempty"`
	Model   map[string]string `json:"model,omitempty"`
	Detail  string         `json:"detail,omitempty"`
	Seconds float64        `json:"seconds"`
}

type Config struct {
	MaxBlockVisits int
	MaxSteps       int
	MaxPaths       int
	MaxAlloc       int
	PanicOK        bool // uncaught panics are not violations
	Mode           string
	Params         map[string]int
	Verbose        bool
	ShardI, ShardN int
	SplitDepth     int
}

type Interp struct {
	prog   *ssa.Program
	cfg    Config
	solver *Solver
	nra    *Solver

	prefix  []int
	trace   []int
	pending [][]int
	pc      []*Term

	steps   int
	cellSeq int
	globals map[*ssa.Global]*Cell
	initDone map[*ssa.Package]bool
	symNames map[string]int
	symVars  []*Term
	modelExtra []func(m map[string]*big.Int, out map[string]string)

	// per-path outputs
	obligations []Obligation
	witnesses   map[string]bool
	pathNotes   []string
	hashes      []*hashApp
	field       *FieldState
	lockLog     []lockEvent
	curHarness  string
	funcsSeen   map[string]bool
	stubsSeen   map[string]bool
	depth       int
	callStack   []string
	curPos      string
	unwindHit   bool
	inInit      int
	strIntern   map[string]Value
	misc        map[string]interface{}
	panicFrame  *Frame
	lastPanic   *goPanic
	onBlockedSend func(*ChanObj, Value) bool
	onGo        func(func())
	axiomLog    *[]*Term
	forceInit   bool
	curTok      token.Pos
	constCache  map[*ssa.Const]Value
	hashSeq     int
}

func (in *Interp) newCell(t types.Type, v Value) *Cell {
	in.cellSeq++
	return &Cell{V: v, T: t, ID: in.cellSeq}
}

func (in *Interp) fail(format string, a ...interface{}) {
	msg := fmt.Sprintf(format, a...)
	if len(in.callStack) > 0 {
		msg += " [in " + in.callStack[len(in.callStack)-1] + " at " + in.posString() + "]"
	}
	panic(engineError{msg})
}

func (in *Interp) goPanicf(format string, a ...interface{}) {
	msg := fmt.Sprintf(format, a...)
	panic(&goPanic{V: IfaceV{T: types.Typ[types.String], V: concStr(msg)}, Msg: msg, Pos: in.where()})
}

func (in *Interp) where() string {
	n := len(in.callStack)
	var fr []string
	for i := n - 1; i >= 0 && i >= n-6; i-- {
		fr = append(fr, shortFn(in.callStack[i]))
	}
	return in.posString() + " <- " + strings.Join(fr, " <- ")
}

func (in *Interp) posString() string {
	if !in.curTok.IsValid() {
		return "?"
	}
	pos := in.prog.Fset.Position(in.curTok)
	return fmt.Sprintf("%s:%d", shortFile(pos.Filename), pos.Line)
}

func shortFn(s string) string {
	s = strings.ReplaceAll(s, "github.com/taurusgroup/multi-party-sig/", "")
	s = strings.ReplaceAll(s, "github.com/", "")
	return s
}

// ---------------------------------------------------------------- decisions

func (in *Interp) feasible(c *Term) Result {
	if c.IsTrue() {
		return Sat
	}
	if c.IsFalse() {
		return Unsat
	}
	return in.solver.Check(c)
}

func (in *Interp) assumeAxiom(c *Term) {
	if in.axiomLog != nil {
		*in.axiomLog = append(*in.axiomLog, c)
	}
	in.assume(c)
}

func (in *Interp) assume(c *Term) {
	if c.IsTrue() {
		return
	}
	in.pc = append(in.pc, c)
	in.solver.Assert(c)
}

// choose picks one of n alternatives guarded by conds (mutually exclusive, jointly exhaustive under PC).
func (in *Interp) choose(conds []*Term) int {
	// constant shortcut
	for i, c := range conds {
		if c.IsTrue() {
			return i
		}
	}
	k := len(in.trace)
	if k < len(in.prefix) {
		c := in.prefix[k]
		in.trace = append(in.trace, c)
		in.assume(conds[c])
		return c
	}
	first := -1
	for i, c := range conds {
		if c.IsFalse() {
			continue
		}
		r := in.feasible(c)
		if r == Unsat {
			continue
		}
		if first < 0 {
			first = i
		} else {
			np := append(append([]int{}, in.trace...), i)
			in.pending = append(in.pending, np)
		}
	}
	if first < 0 {
		panic(pathEnd{"infeasible"})
	}
	in.trace = append(in.trace, first)
	in.assume(conds[first])
	return first
}

func (in *Interp) branch(c *Term) bool {
	if c.IsTrue() {
		return true
	}
	if c.IsFalse() {
		return false
	}
	r := in.choose([]*Term{c, Not(c)}) == 0
	if c.Op == "var" {
		// remember decided boolean variables of this path so that models can emit constants instead of ite terms
		if in.misc["knownBool"] == nil {
			in.misc["knownBool"] = map[string]bool{}
		}
		in.misc["knownBool"].(map[string]bool)[c.Name] = r
	}
	return r
}

// knownBool reports the value of a boolean variable already decided on this path.
func (in *Interp) knownBool(name string) (val, ok bool) {
	m, _ := in.misc["knownBool"].(map[string]bool)
	val, ok = m[name]
	return
}

// concretize forks over the values lo..hi of an integer term; hiOut: alternative "value > hi" allowed
func (in *Interp) concretize(t *Term, lo, hi int64, signedT bool) (int64, bool) {
	if t.IsConst() {
		var v int64
		if signedT {
			v = t.Int64()
		} else {
			if t.C.IsInt64() {
				v = t.C.Int64()
			} else {
				return 0, false
			}
		}
		if v < lo || v > hi {
			return v, false
		}
		return v, true
	}
	var conds []*Term
	for v := lo; v <= hi; v++ {
		conds = append(conds, Eq(t, BVConstI(v, t.S.W)))
	}
	conds = append(conds, Not(Or(conds...)))
	c := in.choose(conds)
	if c == len(conds)-1 {
		return 0, false
	}
	return lo + int64(c), true
}

// ---------------------------------------------------------------- zero values

var modelZero = map[string]func(in *Interp) Value{}

// modeZero: zero values that depend on the model mode (e.g. field-mode scalars)
var modeZero = map[string]map[string]func(in *Interp) Value{}

func typesPtr(t types.Type) types.Type { return types.NewPointer(t) }

func (in *Interp) zero(t types.Type) Value {
	if n, ok := t.(*types.Named); ok {
		k := typeKey(n)
		if in.cfg.Mode != "" {
			for _, m := range strings.Split(in.cfg.Mode, ",") {
				if mz, ok := modeZero[m]; ok {
					if f, ok := mz[k]; ok {
						return f(in)
					}
				}
			}
		}
		if f, ok := modelZero[k]; ok {
			return f(in)
		}
	}
	if a, ok := t.(*types.Alias); ok {
		return in.zero(types.Unalias(a))
	}
	switch u := t.Underlying().(type) {
	case *types.Basic:
		if w, _, ok := intWidth(u); ok {
			return BVConst64(0, w)
		}
		if u.Info()&types.IsBoolean != 0 {
			return False
		}
		if u.Info()&types.IsString != 0 {
			return StrV{}
		}
		if u.Kind() == types.UnsafePointer {
			return PtrV{}
		}
		if u.Info()&types.IsFloat != 0 {
			return floatV{0}
		}
		if u.Kind() == types.UntypedNil {
			return nil
		}
		in.fail("zero: unsupported basic type %s", t)
	case *types.Pointer:
		return PtrV{}
	case *types.Slice:
		return SliceV{}
	case *types.Map:
		return MapV{}
	case *types.Chan:
		return ChanV{}
	case *types.Interface:
		return IfaceV{}
	case *types.Signature:
		return FuncV{}
	case *types.Struct:
		f := make([]Value, u.NumFields())
		for i := range f {
			f[i] = in.zero(u.Field(i).Type())
		}
		return &StructV{f}
	case *types.Array:
		n := int(u.Len())
		e := make([]Value, n)
		if n > 0 {
			z := in.zero(u.Elem())
			for i := range e {
				e[i] = z
			}
		}
		return &ArrV{e}
	case *types.Tuple:
		tv := make(TupleV, u.Len())
		for i := range tv {
			tv[i] = in.zero(u.At(i).Type())
		}
		return tv
	}
	in.fail("zero: unsupported type %s", t)
	return nil
}

type floatV struct{ f float64 }

// ---------------------------------------------------------------- memory

func (in *Interp) load(p PtrV) Value {
	if p.C != nil && p.C.Watch {
		in.logAccess(p, false)
	}
	v := in.loadRaw(p)
	if len(p.Path) == 0 && p.C.Tag == "own" {
		if a, ok := v.(*ArrV); ok { // the owner mutates in place: hand out a copy
			e := make([]Value, len(a.E))
			copy(e, a.E)
			return &ArrV{e}
		}
	}
	return v
}

func (in *Interp) loadRaw(p PtrV) Value {
	if p.C == nil {
		in.goPanicf("runtime error: invalid memory address or nil pointer dereference")
	}
	v := p.C.V
	for d, i := range p.Path {
		if lz, ok := v.(*LazyV); ok {
			v = in.materialize(lz)
			in.store(PtrV{p.C, p.Path[:d]}, v)
		}
		switch x := v.(type) {
		case *StructV:
			v = x.F[i]
		case *ArrV:
			if i >= len(x.E) {
				in.fail("load: index %d out of array of %d", i, len(x.E))
			}
			v = x.E[i]
		default:
			in.fail("load: path through %T", v)
		}
	}
	if lz, ok := v.(*LazyV); ok {
		nv := in.materialize(lz)
		in.store(p, nv)
		return nv
	}
	return v
}

// force materialises lazy containers in place is not possible (persistent values); callers use load/store.
func (in *Interp) force(v Value) Value {
	if lz, ok := v.(*LazyV); ok {
		return in.materialize(lz)
	}
	return v
}

func updatePath(in *Interp, v Value, path []int, nv Value) Value {
	if len(path) == 0 {
		return nv
	}
	v = in.force(v)
	switch x := v.(type) {
	case *StructV:
		f := make([]Value, len(x.F))
		copy(f, x.F)
		f[path[0]] = updatePath(in, x.F[path[0]], path[1:], nv)
		return &StructV{f}
	case *ArrV:
		e := make([]Value, len(x.E))
		copy(e, x.E)
		if path[0] >= len(e) {
			in.fail("store: index %d out of array of %d", path[0], len(e))
		}
		e[path[0]] = updatePath(in, x.E[path[0]], path[1:], nv)
		return &ArrV{e}
	}
	in.fail("store: path through %T", v)
	return nil
}

func (in *Interp) store(p PtrV, v Value) {
	if p.C == nil {
		in.goPanicf("runtime error: invalid memory address or nil pointer dereference")
	}
	if p.C.Watch {
		in.logAccess(p, true)
	}
	// fast path: array element inside a top-level array cell (byte buffers)
	if len(p.Path) == 1 {
		if a, ok := p.C.V.(*ArrV); ok && p.C.Tag == "own" {
			a.E[p.Path[0]] = v
			return
		}
	}
	p.C.V = updatePath(in, p.C.V, p.Path, v)
}

func extPath(p []int, i int) []int {
	np := make([]int, len(p)+1)
	copy(np, p)
	np[len(p)] = i
	return np
}

// slice helpers
func (in *Interp) sliceArr(s SliceV) *ArrV {
	v := in.loadRaw(PtrV{s.C, s.Path})
	a, ok := v.(*ArrV)
	if !ok {
		in.fail("slice backing is %T", v)
	}
	return a
}

func (in *Interp) sliceElems(s SliceV) []Value {
	if s.C == nil {
		return nil
	}
	a := in.sliceArr(s)
	return a.E[s.Off : s.Off+s.Len]
}

func (in *Interp) newSlice(elemT types.Type, elems []Value, capn int) SliceV {
	if capn < len(elems) {
		capn = len(elems)
	}
	e := make([]Value, capn)
	copy(e, elems)
	if capn > len(elems) {
		z := in.zero(elemT)
		for i := len(elems); i < capn; i++ {
			e[i] = z
		}
	}
	c := in.newCell(types.NewArray(elemT, int64(capn)), &ArrV{e})
	c.Tag = "own" // array object owned by the cell exclusively: in-place element writes allowed
	return SliceV{C: c, Off: 0, Len: len(elems), Cap: capn}
}

func (in *Interp) bytesOf(v Value) []*Term {
	switch x := v.(type) {
	case StrV:
		return x.B
	case SliceV:
		es := in.sliceElems(x)
		out := make([]*Term, len(es))
		for i, e := range es {
			e = in.force(e) // an unmaterialised havoc byte: arbitrary (not written back: a later read is again arbitrary, an over-approximation)
			t, ok := e.(*Term)
			if !ok {
				in.fail("bytesOf: element %T", e)
			}
			out[i] = t
		}
		return out
	}
	in.fail("bytesOf: %T", v)
	return nil
}

func (in *Interp) byteSlice(b []*Term) SliceV {
	e := make([]Value, len(b))
	for i, t := range b {
		e[i] = t
	}
	return in.newSlice(types.Typ[types.Uint8], e, len(e))
}

// ---------------------------------------------------------------- equality / comparison

func (in *Interp) valEq(a, b Value) *Term {
	a = in.force(a)
	b = in.force(b)
	switch x := a.(type) {
	case nil:
		return BoolConst(isNilValue(b))
	case *Term:
		y, ok := b.(*Term)
		if !ok {
			in.fail("valEq: Term vs %T", b)
		}
		return Eq(x, y)
	case StrV:
		y := b.(StrV)
		if len(x.B) != len(y.B) {
			return False
		}
		cs := make([]*Term, len(x.B))
		for i := range x.B {
			cs[i] = Eq(x.B[i], y.B[i])
		}
		return And(cs...)
	case PtrV:
		y, ok := b.(PtrV)
		if !ok {
			return BoolConst(x.C == nil && isNilValue(b))
		}
		if x.C != y.C || len(x.Path) != len(y.Path) {
			return False
		}
		for i := range x.Path {
			if x.Path[i] != y.Path[i] {
				return False
			}
		}
		return True
	case IfaceV:
		y, ok := b.(IfaceV)
		if !ok {
			if b == nil {
				return BoolConst(x.T == nil)
			}
			in.fail("valEq: iface vs %T", b)
		}
		if x.T == nil || y.T == nil {
			return BoolConst(x.T == nil && y.T == nil)
		}
		if !types.Identical(x.T, y.T) {
			return False
		}
		return in.valEq(x.V, y.V)
	case *StructV:
		y := b.(*StructV)
		cs := make([]*Term, len(x.F))
		for i := range x.F {
			cs[i] = in.valEq(x.F[i], y.F[i])
		}
		return And(cs...)
	case *ArrV:
		y := b.(*ArrV)
		cs := make([]*Term, len(x.E))
		for i := range x.E {
			cs[i] = in.valEq(x.E[i], y.E[i])
		}
		return And(cs...)
	case SliceV:
		return BoolConst(x.C == nil && isNilValue(b))
	case MapV:
		if y, ok := b.(MapV); ok {
			return BoolConst(x.M == y.M)
		}
		return BoolConst(x.M == nil && isNilValue(b))
	case ChanV:
		if y, ok := b.(ChanV); ok {
			return BoolConst(x.Ch == y.Ch)
		}
		return BoolConst(x.Ch == nil && isNilValue(b))
	case FuncV:
		return BoolConst(isNilValue(x) && isNilValue(b))
	case ModelVal:
		if me, ok := a.(interface{ EqModel(in *Interp, o Value) *Term }); ok {
			return me.EqModel(in, b)
		}
	}
	in.fail("valEq: unsupported %T", a)
	return nil
}

// strLess: lexicographic a < b as a term.
func strLess(a, b StrV) *Term {
	n := len(a.B)
	if len(b.B) < n {
		n = len(b.B)
	}
	// from the end: result if all common bytes equal
	res := BoolConst(len(a.B) < len(b.B))
	for i := n - 1; i >= 0; i-- {
		res = Ite(Eq(a.B[i], b.B[i]), res, BVUlt(a.B[i], b.B[i]))
	}
	return res
}

// ---------------------------------------------------------------- constants

func (in *Interp) constValue(c *ssa.Const) Value {
	t := c.Type()
	if c.Value == nil {
		return in.zero(t)
	}
	if w, sg, ok := intWidth(t); ok {
		v, _ := new(big.Int).SetString(constant.ToInt(c.Value).ExactString(), 10)
		_ = sg
		return BVConst(v, w)
	}
	switch u := t.Underlying().(type) {
	case *types.Basic:
		if u.Info()&types.IsBoolean != 0 {
			return BoolConst(constant.BoolVal(c.Value))
		}
		if u.Info()&types.IsString != 0 {
			s := constant.StringVal(c.Value)
			if v, ok := in.strIntern[s]; ok {
				return v
			}
			v := concStr(s)
			in.strIntern[s] = v
			return v
		}
		if u.Info()&types.IsFloat != 0 {
			f, _ := constant.Float64Val(c.Value)
			return floatV{f}
		}
	}
	in.fail("constValue: unsupported const %s of type %s", c, t)
	return nil
}

// ---------------------------------------------------------------- evaluation

func (in *Interp) get(fr *Frame, v ssa.Value) Value {
	switch x := v.(type) {
	case *ssa.Const:
		if v, ok := in.constCache[x]; ok {
			return v
		}
		v := in.constValue(x)
		switch v.(type) {
		case *Term, StrV:
			in.constCache[x] = v
		}
		return v
	case *ssa.Function:
		return FuncV{Fn: x}
	case *ssa.Global:
		return PtrV{C: in.global(x)}
	case *ssa.Builtin:
		return FuncV{Intr: builtinIntr(x)}
	case *ssa.FreeVar:
		for i, fv := range fr.fn.FreeVars {
			if fv == x {
				return fr.free[i]
			}
		}
		in.fail("free var not found")
	}
	val, ok := fr.env[v]
	if !ok {
		in.fail("value %s (%T) not in env", v.Name(), v)
	}
	return val
}

func (in *Interp) global(g *ssa.Global) *Cell {
	if c, ok := in.globals[g]; ok {
		return c
	}
	elem := g.Type().(*types.Pointer).Elem()
	c := in.newCell(elem, in.zero(elem))
	in.globals[g] = c
	if g.Pkg != nil && g.Pkg.Pkg.Path() == "crypto/rand" && g.Name() == "Reader" {
		rt := in.namedType("crypto/rand", "reader")
		c.V = IfaceV{T: types.NewPointer(rt), V: PtrV{C: in.newCell(rt, &randReaderTok{})}}
		return c
	}
	in.ensureInit(g.Pkg)
	return c
}

func (in *Interp) ensureInit(p *ssa.Package) {
	if p == nil || in.initDone[p] {
		return
	}
	in.initDone[p] = true
	if skipInitPkgs[p.Pkg.Path()] {
		return
	}
	initFn := p.Func("init")
	if initFn == nil {
		return
	}
	if initFn.Blocks == nil {
		p.Build()
	}
	in.inInit++
	savedStack := in.callStack
	func() {
		defer func() {
			if r := recover(); r != nil {
				in.callStack = savedStack
				switch e := r.(type) {
				case engineError:
					if in.cfg.Verbose || strings.Contains(p.Pkg.Path(), "multi-party-sig") {
						fmt.Fprintf(os.Stderr, "note: init of %s incomplete: %s\n", p.Pkg.Path(), e.Msg)
					}
				case *goPanic:
					fmt.Fprintf(os.Stderr, "note: init of %s panicked: %s\n", p.Pkg.Path(), e.Msg)
				default:
					panic(r)
				}
			}
		}()
		in.forceInit = true
		in.callFunction(initFn, nil, nil)
	}()
	in.inInit--
}

var skipInitPkgs = map[string]bool{
	"runtime": true, "reflect": true, "sync": true, "os": true, "syscall": true, "time": true, "fmt": true,
	"math/rand": true, "crypto/rand": true, "internal/cpu": true, "math/big": true, "testing": true,
	"unicode": true, "strconv": true, "crypto": true, "crypto/sha256": true, "crypto/sha512": true,
	"github.com/zeebo/blake3": true, "github.com/fxamacker/cbor/v2": true, "github.com/cronokirby/saferith": true,
	"github.com/decred/dcrd/dcrec/secp256k1/v4": true, "encoding/binary": true, "internal/godebug": true,
	"math": true, "math/bits": true, "sync/atomic": true, "internal/bytealg": true, "hash/crc32": true,
}

func (in *Interp) callValue(fr *Frame, fv Value, args []Value) Value {
	f, ok := fv.(FuncV)
	if !ok {
		in.fail("call of non-function %T", fv)
	}
	if f.Intr != nil {
		return f.Intr(in, fr, args)
	}
	if f.Fn == nil {
		in.goPanicf("runtime error: invalid memory address or nil pointer dereference (nil func call)")
	}
	return in.callFunction(f.Fn, args, f.Env)
}

func (in *Interp) callFunction(fn *ssa.Function, args []Value, free []Value) (ret Value) {
	name := fn.String()
	if intr, ok := in.lookupIntrinsic(fn, name); ok {
		in.stubsSeen[name] = true
		in.callStack = append(in.callStack, name)
		defer func() { in.callStack = in.callStack[:len(in.callStack)-1] }()
		return intr(in, nil, args)
	}
	if fn.Blocks == nil {
		if fn.Pkg != nil {
			fn.Pkg.Build()
		}
		if fn.Blocks == nil {
			if fn.Name() == "init" && fn.Pkg != nil { // other package's init: lazy
				return nil
			}
			in.fail("call of external function without model: %s", name)
		}
	}
	forced := in.forceInit
	in.forceInit = false
	if fn.Name() == "init" && fn.Pkg != nil && fn.Signature.Recv() == nil && !forced {
		// nested package initialiser: repo packages and a few simple std packages are run (protected);
		// others are skipped and initialised lazily if one of their globals is touched
		path := fn.Pkg.Pkg.Path()
		if strings.Contains(path, "multi-party-sig") || initOKPkgs[path] {
			in.ensureInit(fn.Pkg)
		}
		return nil
	}
	in.funcsSeen[name] = true
	in.depth++
	if in.depth > 400 {
		in.fail("call depth exceeded")
	}
	in.callStack = append(in.callStack, name)
	fr := &Frame{fn: fn, env: make(map[ssa.Value]Value, 32), free: free, visits: map[*ssa.BasicBlock]int{}}
	for i, p := range fn.Params {
		if i < len(args) {
			fr.env[p] = args[i]
		}
	}
	savedPos := in.curTok
	defer func() {
		in.depth--
		in.callStack = in.callStack[:len(in.callStack)-1]
		in.curTok = savedPos
	}()
	return in.runFrame(fr)
}

var initOKPkgs = map[string]bool{"io": true, "bytes": true, "sort": true, "strings": true, "encoding/hex": true, "io/fs": true}

// runFrame executes the blocks of fr; handles panics + defers + recover.
func (in *Interp) runFrame(fr *Frame) (ret Value) {
	defer func() {
		if r := recover(); r != nil {
			gp, ok := r.(*goPanic)
			if !ok {
				panic(r)
			}
			// run deferred calls while panicking
			fr.panicking = gp
			savedPF := in.panicFrame
			in.panicFrame = fr
			in.runDefers(fr)
			in.panicFrame = savedPF
			if fr.recovered {
				// function returns normally with current named results (Recover block)
				if fr.fn.Recover != nil {
					ret = in.execFrom(fr, fr.fn.Recover, nil)
					return
				}
				ret = in.zeroResults(fr.fn)
				return
			}
			panic(gp)
		}
	}()
	return in.execFrom(fr, fr.fn.Blocks[0], nil)
}

func (in *Interp) zeroResults(fn *ssa.Function) Value {
	res := fn.Signature.Results()
	switch res.Len() {
	case 0:
		return nil
	case 1:
		return in.zero(res.At(0).Type())
	}
	return in.zero(res)
}

func (in *Interp) runDefers(fr *Frame) {
	for len(fr.defers) > 0 {
		d := fr.defers[len(fr.defers)-1]
		fr.defers = fr.defers[:len(fr.defers)-1]
		d()
	}
}

func (in *Interp) execFrom(fr *Frame, b *ssa.BasicBlock, prev *ssa.BasicBlock) Value {
	for {
		fr.visits[b]++
		if fr.visits[b] > in.cfg.MaxBlockVisits {
			in.unwindHit = true
			panic(pathEnd{fmt.Sprintf("unwind-exceeded in %s block %d (bound %d)", fr.fn, b.Index, in.cfg.MaxBlockVisits)})
		}
		// phis first, simultaneously
		var phiVals []Value
		nphi := 0
		for _, ins := range b.Instrs {
			phi, ok := ins.(*ssa.Phi)
			if !ok {
				break
			}
			nphi++
			idx := -1
			for i, p := range b.Preds {
				if p == prev {
					idx = i
					break
				}
			}
			if idx < 0 {
				in.fail("phi: predecessor not found")
			}
			phiVals = append(phiVals, in.get(fr, phi.Edges[idx]))
		}
		for i := 0; i < nphi; i++ {
			fr.env[b.Instrs[i].(*ssa.Phi)] = phiVals[i]
		}
		var next *ssa.BasicBlock
		for _, ins := range b.Instrs[nphi:] {
			in.steps++
			if in.steps > in.cfg.MaxSteps {
				in.unwindHit = true
				panic(pathEnd{fmt.Sprintf("step budget exceeded (%d)", in.cfg.MaxSteps)})
			}
			if p := ins.Pos(); p.IsValid() {
				in.curTok = p
			}
			switch x := ins.(type) {
			case *ssa.If:
				c := in.get(fr, x.Cond).(*Term)
				if in.branch(c) {
					next = b.Succs[0]
				} else {
					next = b.Succs[1]
				}
			case *ssa.Jump:
				next = b.Succs[0]
			case *ssa.Return:
				var ret Value
				switch len(x.Results) {
				case 0:
				case 1:
					ret = in.get(fr, x.Results[0])
				default:
					tv := make(TupleV, len(x.Results))
					for i, r := range x.Results {
						tv[i] = in.get(fr, r)
					}
					ret = tv
				}
				return ret
			case *ssa.Panic:
				v := in.get(fr, x.X)
				panic(&goPanic{V: v, Msg: in.panicMsg(v), Pos: in.where()})
			default:
				in.exec(fr, ins)
			}
		}
		if next == nil {
			in.fail("block without terminator")
		}
		prev = b
		b = next
	}
}

func shortFile(f string) string {
	f = strings.TrimPrefix(f, repoDir+"/")
	if i := strings.Index(f, "/pkg/mod/"); i >= 0 {
		f = f[i+9:]
	}
	if i := strings.Index(f, "/go/src/"); i >= 0 {
		f = f[i+8:]
	}
	return f
}

func (in *Interp) panicMsg(v Value) string {
	if iv, ok := v.(IfaceV); ok {
		switch x := iv.V.(type) {
		case StrV:
			if s, ok := x.goString(); ok {
				return s
			}
			return "<symbolic string>"
		case *ErrV:
			return x.Msg
		case PtrV:
			if x.C != nil {
				if e, ok := x.C.V.(*ErrV); ok {
					return e.Msg
				}
			}
		}
		if iv.T != nil {
			return "panic value of type " + iv.T.String()
		}
	}
	return "panic"
}

func (in *Interp) exec(fr *Frame, ins ssa.Instruction) {
	switch x := ins.(type) {
	case *ssa.DebugRef:
	case *ssa.Alloc:
		elem := x.Type().(*types.Pointer).Elem()
		c := in.newCell(elem, in.zero(elem))
		fr.env[x] = PtrV{C: c}
	case *ssa.BinOp:
		fr.env[x] = in.binop(x.Op, x.X.Type(), in.get(fr, x.X), in.get(fr, x.Y), x.Y.Type())
	case *ssa.UnOp:
		fr.env[x] = in.unop(fr, x)
	case *ssa.Call:
		fr.env[x] = in.doCall(fr, &x.Call)
	case *ssa.ChangeInterface:
		fr.env[x] = in.get(fr, x.X)
	case *ssa.ChangeType:
		fr.env[x] = in.get(fr, x.X)
	case *ssa.Convert:
		fr.env[x] = in.convert(in.get(fr, x.X), x.X.Type(), x.Type())
	case *ssa.MultiConvert:
		fr.env[x] = in.convert(in.get(fr, x.X), x.X.Type(), x.Type())
	case *ssa.SliceToArrayPointer:
		s := in.get(fr, x.X).(SliceV)
		n := int(x.Type().(*types.Pointer).Elem().Underlying().(*types.Array).Len())
		if s.Len < n {
			in.goPanicf("runtime error: cannot convert slice with length %d to array or pointer to array with length %d", s.Len, n)
		}
		if s.C == nil {
			fr.env[x] = PtrV{}
			break
		}
		if s.Off == 0 && len(in.sliceArr(s).E) == n {
			fr.env[x] = PtrV{C: s.C, Path: s.Path}
		} else {
			in.fail("SliceToArrayPointer on offset slice")
		}
	case *ssa.Extract:
		fr.env[x] = in.get(fr, x.Tuple).(TupleV)[x.Index]
	case *ssa.Field:
		sv := in.force(in.get(fr, x.X)).(*StructV)
		fr.env[x] = sv.F[x.Field]
	case *ssa.FieldAddr:
		p := in.get(fr, x.X).(PtrV)
		if p.C == nil {
			in.goPanicf("runtime error: invalid memory address or nil pointer dereference")
		}
		fr.env[x] = PtrV{C: p.C, Path: extPath(p.Path, x.Field)}
	case *ssa.Index:
		fr.env[x] = in.index(fr, x)
	case *ssa.IndexAddr:
		fr.env[x] = in.indexAddr(fr, x)
	case *ssa.Lookup:
		fr.env[x] = in.lookup(fr, x)
	case *ssa.MakeChan:
		n := in.get(fr, x.Size).(*Term)
		in.cellSeq++
		fr.env[x] = ChanV{&ChanObj{Cap: int(n.Int64()), ID: in.cellSeq}}
	case *ssa.MakeClosure:
		env := make([]Value, len(x.Bindings))
		for i, b := range x.Bindings {
			env[i] = in.get(fr, b)
		}
		fr.env[x] = FuncV{Fn: x.Fn.(*ssa.Function), Env: env}
	case *ssa.MakeInterface:
		fr.env[x] = IfaceV{T: x.X.Type(), V: in.get(fr, x.X)}
	case *ssa.MakeMap:
		in.cellSeq++
		fr.env[x] = MapV{&MapObj{ID: in.cellSeq}}
	case *ssa.MakeSlice:
		fr.env[x] = in.makeSlice(fr, x)
	case *ssa.MapUpdate:
		m := in.get(fr, x.Map).(MapV)
		if m.M == nil {
			in.goPanicf("assignment to entry in nil map")
		}
		if m.M.Owner != nil {
			in.recordAccess(m.M.Owner.C, m.M.Owner.Field, true)
		}
		in.mapSet(m.M, in.get(fr, x.Key), in.get(fr, x.Value))
	case *ssa.Range:
		fr.env[x] = in.mkRange(in.get(fr, x.X))
	case *ssa.Next:
		fr.env[x] = in.next(fr, x)
	case *ssa.Slice:
		fr.env[x] = in.sliceOp(fr, x)
	case *ssa.Store:
		in.store(in.get(fr, x.Addr).(PtrV), in.get(fr, x.Val))
	case *ssa.TypeAssert:
		fr.env[x] = in.typeAssert(fr, x)
	case *ssa.Defer:
		call := x.Call
		fnv, args := in.prepareCall(fr, &call)
		fr.defers = append(fr.defers, func() { in.invokePrepared(fr, &call, fnv, args) })
	case *ssa.RunDefers:
		in.runDefers(fr)
	case *ssa.Send:
		ch := in.get(fr, x.Chan).(ChanV)
		in.chanSend(ch, in.get(fr, x.X), true)
	case *ssa.Select:
		fr.env[x] = in.selectOp(fr, x)
	case *ssa.Go:
		call := x.Call
		fnv, args := in.prepareCall(fr, &call)
		in.goStmt(fr, &call, fnv, args)
	default:
		in.fail("unsupported instruction %T: %s", ins, ins)
	}
}

// ---------------------------------------------------------------- calls

// prepareCall evaluates callee and arguments.
func (in *Interp) prepareCall(fr *Frame, c *ssa.CallCommon) (Value, []Value) {
	var args []Value
	if c.IsInvoke() {
		recv := in.get(fr, c.Value)
		args = append(args, recv)
		for _, a := range c.Args {
			args = append(args, in.get(fr, a))
		}
		return nil, args
	}
	fnv := in.get(fr, c.Value)
	for _, a := range c.Args {
		args = append(args, in.get(fr, a))
	}
	return fnv, args
}

func (in *Interp) invokePrepared(fr *Frame, c *ssa.CallCommon, fnv Value, args []Value) Value {
	if c.IsInvoke() {
		iv, ok := in.force(args[0]).(IfaceV)
		if !ok {
			in.fail("invoke on %T", args[0])
		}
		if iv.T == nil {
			in.goPanicf("runtime error: invalid memory address or nil pointer dereference (method %s on nil interface)", c.Method.Name())
		}
		fn := in.findMethod(iv.T, c.Method)
		if fn == nil {
			in.fail("method %s not found on %s", c.Method.Name(), iv.T)
		}
		a2 := append([]Value{iv.V}, args[1:]...)
		return in.callFunction(fn, a2, nil)
	}
	return in.callValue(fr, fnv, args)
}

func (in *Interp) doCall(fr *Frame, c *ssa.CallCommon) Value {
	fnv, args := in.prepareCall(fr, c)
	return in.invokePrepared(fr, c, fnv, args)
}

func (in *Interp) findMethod(t types.Type, m *types.Func) *ssa.Function {
	ms := in.prog.MethodSets.MethodSet(t)
	sel := ms.Lookup(m.Pkg(), m.Name())
	if sel == nil {
		return nil
	}
	return in.prog.MethodValue(sel)
}

// callMethod calls the named method on a value of dynamic type t (used by intrinsics).
func (in *Interp) callMethod(t types.Type, recv Value, name string, args ...Value) Value {
	ms := in.prog.MethodSets.MethodSet(t)
	for i := 0; i < ms.Len(); i++ {
		sel := ms.At(i)
		if sel.Obj().Name() == name {
			fn := in.prog.MethodValue(sel)
			return in.callFunction(fn, append([]Value{recv}, args...), nil)
		}
	}
	in.fail("callMethod: %s has no method %s", t, name)
	return nil
}

func (in *Interp) hasMethod(t types.Type, name string) bool {
	ms := in.prog.MethodSets.MethodSet(t)
	for i := 0; i < ms.Len(); i++ {
		if ms.At(i).Obj().Name() == name {
			return true
		}
	}
	return false
}

// ---------------------------------------------------------------- operators

func (in *Interp) binop(op token.Token, xt types.Type, a, b Value, yt types.Type) Value {
	a = in.force(a)
	b = in.force(b)
	switch op {
	case token.EQL:
		return in.valEq(a, b)
	case token.NEQ:
		return Not(in.valEq(a, b))
	}
	if sa, ok := a.(StrV); ok {
		sb := b.(StrV)
		switch op {
		case token.ADD:
			nb := make([]*Term, 0, len(sa.B)+len(sb.B))
			nb = append(append(nb, sa.B...), sb.B...)
			return StrV{nb}
		case token.LSS:
			return strLess(sa, sb)
		case token.GTR:
			return strLess(sb, sa)
		case token.LEQ:
			return Not(strLess(sb, sa))
		case token.GEQ:
			return Not(strLess(sa, sb))
		}
	}
	if fa, ok := a.(floatV); ok {
		fb := b.(floatV)
		switch op {
		case token.ADD:
			return floatV{fa.f + fb.f}
		case token.SUB:
			return floatV{fa.f - fb.f}
		case token.MUL:
			return floatV{fa.f * fb.f}
		case token.QUO:
			return floatV{fa.f / fb.f}
		case token.LSS:
			return BoolConst(fa.f < fb.f)
		case token.GTR:
			return BoolConst(fa.f > fb.f)
		case token.LEQ:
			return BoolConst(fa.f <= fb.f)
		case token.GEQ:
			return BoolConst(fa.f >= fb.f)
		}
	}
	x, ok1 := a.(*Term)
	y, ok2 := b.(*Term)
	if !ok1 || !ok2 {
		in.fail("binop %s on %T, %T", op, a, b)
	}
	if x.S.K == SBool {
		switch op {
		case token.AND, token.LAND:
			return And(x, y)
		case token.OR, token.LOR:
			return Or(x, y)
		case token.XOR:
			return Not(Eq(x, y))
		}
		in.fail("bool binop %s", op)
	}
	_, sg, _ := intWidth(xt)
	switch op {
	case token.ADD:
		return BVAdd(x, y)
	case token.SUB:
		return BVSub(x, y)
	case token.MUL:
		return BVMul(x, y)
	case token.QUO, token.REM:
		if in.branch(Eq(y, BVConst64(0, y.S.W))) {
			in.goPanicf("runtime error: integer divide by zero")
		}
		if op == token.QUO {
			if sg {
				return BVSDiv(x, y)
			}
			return BVUDiv(x, y)
		}
		if sg {
			return BVSRem(x, y)
		}
		return BVURem(x, y)
	case token.AND:
		return BVAnd(x, y)
	case token.OR:
		return BVOr(x, y)
	case token.XOR:
		return BVXor(x, y)
	case token.AND_NOT:
		return BVAnd(x, BVNot(y))
	case token.SHL, token.SHR:
		_, ysg, _ := intWidth(yt)
		if ysg {
			if in.branch(BVSlt(y, BVConst64(0, y.S.W))) {
				in.goPanicf("runtime error: negative shift amount")
			}
		}
		var cnt *Term
		w := x.S.W
		if y.S.W > w {
			big := BVUle(BVConst64(uint64(w), y.S.W), y)
			cnt = Ite(big, BVConst64(uint64(w), w), Extract(y, w-1, 0))
		} else {
			cnt = ZeroExt(y, w)
		}
		if op == token.SHL {
			return BVShl(x, cnt)
		}
		if sg {
			return BVAshr(x, cnt)
		}
		return BVLshr(x, cnt)
	case token.LSS:
		if sg {
			return BVSlt(x, y)
		}
		return BVUlt(x, y)
	case token.LEQ:
		if sg {
			return BVSle(x, y)
		}
		return BVUle(x, y)
	case token.GTR:
		if sg {
			return BVSlt(y, x)
		}
		return BVUlt(y, x)
	case token.GEQ:
		if sg {
			return BVSle(y, x)
		}
		return BVUle(y, x)
	}
	in.fail("binop %s unsupported", op)
	return nil
}

func (in *Interp) unop(fr *Frame, x *ssa.UnOp) Value {
	v := in.get(fr, x.X)
	switch x.Op {
	case token.MUL:
		p, ok := v.(PtrV)
		if !ok {
			in.fail("deref of %T", v)
		}
		lv := in.load(p)
		if p.C != nil && p.C.Watch && len(p.Path) > 0 {
			in.tagOwner(lv, &accessOwner{p.C, p.Path[0]})
		}
		return lv
	case token.SUB:
		if f, ok := v.(floatV); ok {
			return floatV{-f.f}
		}
		return BVNeg(v.(*Term))
	case token.NOT:
		return Not(v.(*Term))
	case token.XOR:
		return BVNot(v.(*Term))
	case token.ARROW:
		ch := v.(ChanV)
		val, ok := in.chanRecv(ch, x.Type(), x.CommaOk)
		if x.CommaOk {
			return TupleV{val, BoolConst(ok)}
		}
		return val
	}
	in.fail("unop %s unsupported", x.Op)
	return nil
}

func (in *Interp) convert(v Value, from, to types.Type) Value {
	v = in.force(v)
	fu, tu := from.Underlying(), to.Underlying()
	if wt, _, ok := intWidth(tu); ok {
		if t, ok := v.(*Term); ok && t.S.K == SBV {
			_, fsg, _ := intWidth(fu)
			if wt <= t.S.W {
				return Extract(t, wt-1, 0)
			}
			if fsg {
				return SignExt(t, wt)
			}
			return ZeroExt(t, wt)
		}
		if f, ok := v.(floatV); ok {
			return BVConstI(int64(f.f), wt)
		}
	}
	if isString(tu) {
		switch x := v.(type) {
		case StrV:
			return x
		case SliceV:
			if sl, ok := fu.(*types.Slice); ok {
				if w, _, _ := intWidth(sl.Elem()); w == 8 {
					b := in.bytesOf(x)
					nb := make([]*Term, len(b))
					copy(nb, b)
					return StrV{nb}
				}
			}
		case *Term:
			if x.IsConst() {
				return concStr(string(rune(x.Int64())))
			}
		}
	}
	if sl, ok := tu.(*types.Slice); ok {
		if s, ok := v.(StrV); ok {
			if w, _, _ := intWidth(sl.Elem()); w == 8 {
				return in.byteSlice(s.B)
			}
		}
		if s, ok := v.(SliceV); ok {
			return s
		}
	}
	if b, ok := tu.(*types.Basic); ok && b.Info()&types.IsFloat != 0 {
		switch x := v.(type) {
		case floatV:
			return x
		case *Term:
			if x.IsConst() {
				_, fsg, _ := intWidth(fu)
				if fsg {
					return floatV{float64(x.Int64())}
				}
				return floatV{float64(x.Uint64())}
			}
		}
	}
	if _, ok := tu.(*types.Pointer); ok {
		return v
	}
	if b, ok := tu.(*types.Basic); ok && b.Kind() == types.UnsafePointer {
		return v
	}
	in.fail("convert %s -> %s unsupported (%T)", from, to, v)
	return nil
}

func (in *Interp) index(fr *Frame, x *ssa.Index) Value {
	cv := in.force(in.get(fr, x.X))
	idx := in.get(fr, x.Index).(*Term)
	switch c := cv.(type) {
	case *ArrV:
		i := in.boundIndex(idx, len(c.E), x.Index.Type())
		return c.E[i]
	case StrV:
		i := in.boundIndex(idx, len(c.B), x.Index.Type())
		return c.B[i]
	}
	in.fail("index on %T", cv)
	return nil
}

// boundIndex returns a concrete in-range index or raises the Go index panic.
func (in *Interp) boundIndex(idx *Term, n int, it types.Type) int {
	_, sg, _ := intWidth(it)
	if idx.IsConst() {
		var v int64
		if sg {
			v = idx.Int64()
		} else if idx.C.IsInt64() {
			v = idx.C.Int64()
		} else {
			v = -1
		}
		if v < 0 || v >= int64(n) {
			in.goPanicf("runtime error: index out of range [%d] with length %d", v, n)
		}
		return int(v)
	}
	if n > 4096 {
		in.fail("symbolic index into container of %d elements", n)
	}
	v, ok := in.concretize(idx, 0, int64(n)-1, sg)
	if !ok {
		in.goPanicf("runtime error: index out of range [symbolic] with length %d", n)
	}
	return int(v)
}

func (in *Interp) indexAddr(fr *Frame, x *ssa.IndexAddr) Value {
	cv := in.get(fr, x.X)
	idx := in.get(fr, x.Index).(*Term)
	switch c := cv.(type) {
	case SliceV:
		i := in.boundIndex(idx, c.Len, x.Index.Type())
		return PtrV{C: c.C, Path: extPath(c.Path, c.Off+i)}
	case PtrV: // *array
		if c.C == nil {
			in.goPanicf("runtime error: invalid memory address or nil pointer dereference")
		}
		n := int(x.X.Type().Underlying().(*types.Pointer).Elem().Underlying().(*types.Array).Len())
		i := in.boundIndex(idx, n, x.Index.Type())
		return PtrV{C: c.C, Path: extPath(c.Path, i)}
	}
	in.fail("indexAddr on %T", cv)
	return nil
}

func (in *Interp) lookup(fr *Frame, x *ssa.Lookup) Value {
	cv := in.force(in.get(fr, x.X))
	switch c := cv.(type) {
	case StrV:
		idx := in.get(fr, x.Index).(*Term)
		i := in.boundIndex(idx, len(c.B), x.Index.Type())
		return c.B[i]
	case MapV:
		mt := x.X.Type().Underlying().(*types.Map)
		var val Value
		found := false
		if c.M != nil {
			val, found = in.mapGet(c.M, in.get(fr, x.Index))
			if c.M.Owner != nil {
				in.recordAccess(c.M.Owner.C, c.M.Owner.Field, false)
				if found {
					in.tagOwner(val, c.M.Owner)
				}
			}
		}
		if !found {
			val = in.zero(mt.Elem())
		}
		if x.CommaOk {
			return TupleV{val, BoolConst(found)}
		}
		return val
	}
	in.fail("lookup on %T", cv)
	return nil
}

func (in *Interp) mapFind(m *MapObj, k Value) int {
	for i := range m.Keys {
		if m.Del[i] {
			continue
		}
		eq := in.valEq(m.Keys[i], k)
		if in.branch(eq) {
			return i
		}
	}
	return -1
}
func (in *Interp) mapGet(m *MapObj, k Value) (Value, bool) {
	i := in.mapFind(m, k)
	if i < 0 {
		return nil, false
	}
	return m.Vals[i], true
}
func (in *Interp) mapSet(m *MapObj, k, v Value) {
	i := in.mapFind(m, k)
	if i >= 0 {
		m.Vals[i] = v
		return
	}
	m.Keys = append(m.Keys, k)
	m.Vals = append(m.Vals, v)
	m.Del = append(m.Del, false)
}
func (in *Interp) mapDelete(m *MapObj, k Value) {
	i := in.mapFind(m, k)
	if i >= 0 {
		m.Del[i] = true
	}
}
func (m *MapObj) Len() int {
	n := 0
	for _, d := range m.Del {
		if !d {
			n++
		}
	}
	return n
}

func (in *Interp) mkRange(v Value) Value {
	switch x := in.force(v).(type) {
	case MapV:
		it := &MapIter{}
		if x.M != nil {
			// Go leaves the order unspecified; the engine uses sorted order for concrete string/int keys
			// (stable across runs), insertion order otherwise.
			idxs := []int{}
			for i := range x.M.Keys {
				if !x.M.Del[i] {
					idxs = append(idxs, i)
				}
			}
			sort.SliceStable(idxs, func(a, b int) bool {
				ka, oka := keyString(x.M.Keys[idxs[a]])
				kb, okb := keyString(x.M.Keys[idxs[b]])
				if oka && okb {
					return ka < kb
				}
				return false
			})
			for _, i := range idxs {
				it.Keys = append(it.Keys, x.M.Keys[i])
				it.Vals = append(it.Vals, x.M.Vals[i])
			}
			it.Vals = nil // values are looked up live (Go semantics: deleted/updated entries)
			mm := x.M
			return &mapRange{it: it, m: mm}
		}
		return &mapRange{it: it}
	case StrV:
		return &MapIter{Str: &x}
	}
	in.fail("range over %T", v)
	return nil
}

type mapRange struct {
	it *MapIter
	m  *MapObj
}

func keyString(k Value) (string, bool) {
	switch x := k.(type) {
	case StrV:
		return x.goString()
	case *Term:
		if x.IsConst() {
			return fmt.Sprintf("%040s", x.C.Text(16)), true
		}
	}
	return "", false
}

func (in *Interp) next(fr *Frame, x *ssa.Next) Value {
	itv := in.get(fr, x.Iter)
	tt := x.Type().(*types.Tuple)
	switch it := itv.(type) {
	case *mapRange:
		for it.it.Pos < len(it.it.Keys) {
			k := it.it.Keys[it.it.Pos]
			it.it.Pos++
			// entry still present?
			for i := range it.m.Keys {
				if !it.m.Del[i] && sameKey(it.m.Keys[i], k) {
					return TupleV{True, k, it.m.Vals[i]}
				}
			}
		}
		return TupleV{False, in.zeroOrNil(tt.At(1).Type()), in.zeroOrNil(tt.At(2).Type())}
	case *MapIter: // string
		if it.Pos >= len(it.Str.B) {
			return TupleV{False, BVConst64(0, 64), BVConst64(0, 32)}
		}
		b := it.Str.B[it.Pos]
		if !b.IsConst() {
			// treat bytes < 0x80 only
			if in.branch(BVUlt(b, BVConst64(0x80, 8))) {
				i := it.Pos
				it.Pos++
				return TupleV{True, BVConstI(int64(i), 64), ZeroExt(b, 32)}
			}
			in.fail("range over symbolic non-ASCII string")
		}
		s, _ := StrV{it.Str.B[it.Pos:min(len(it.Str.B), it.Pos+4)]}.goStringPrefix()
		r, size := decodeRune(s)
		i := it.Pos
		it.Pos += size
		return TupleV{True, BVConstI(int64(i), 64), BVConstI(int64(r), 32)}
	}
	in.fail("next on %T", itv)
	return nil
}

func (in *Interp) zeroOrNil(t types.Type) Value {
	if t == nil {
		return nil
	}
	if b, ok := t.(*types.Basic); ok && b.Kind() == types.Invalid {
		return nil
	}
	return in.zero(t)
}

func sameKey(a, b Value) bool {
	switch x := a.(type) {
	case *Term:
		y, ok := b.(*Term)
		return ok && x == y
	case StrV:
		y, ok := b.(StrV)
		if !ok || len(x.B) != len(y.B) {
			return false
		}
		for i := range x.B {
			if x.B[i] != y.B[i] {
				return false
			}
		}
		return true
	case *ArrV:
		y, ok := b.(*ArrV)
		if !ok || len(x.E) != len(y.E) {
			return false
		}
		for i := range x.E {
			if !sameKey(x.E[i], y.E[i]) {
				return false
			}
		}
		return true
	case *StructV:
		y, ok := b.(*StructV)
		if !ok {
			return false
		}
		for i := range x.F {
			if !sameKey(x.F[i], y.F[i]) {
				return false
			}
		}
		return true
	case IfaceV:
		y, ok := b.(IfaceV)
		return ok && x.T != nil && y.T != nil && types.Identical(x.T, y.T) && sameKey(x.V, y.V)
	case PtrV:
		y, ok := b.(PtrV)
		return ok && x.C == y.C && fmt.Sprint(x.Path) == fmt.Sprint(y.Path)
	}
	return false
}

func (s StrV) goStringPrefix() (string, bool) {
	var sb strings.Builder
	for _, b := range s.B {
		if !b.IsConst() {
			break
		}
		sb.WriteByte(byte(b.Uint64()))
	}
	return sb.String(), true
}

func decodeRune(s string) (rune, int) {
	for _, r := range s {
		return r, len(string(r))
	}
	return 0xFFFD, 1
}

func (in *Interp) makeSlice(fr *Frame, x *ssa.MakeSlice) Value {
	lt := in.get(fr, x.Len).(*Term)
	ct := in.get(fr, x.Cap).(*Term)
	elem := x.Type().Underlying().(*types.Slice).Elem()
	n := in.allocSize(lt, x.Len.Type(), "len")
	c := n
	if ct != lt {
		c = in.allocSize(ct, x.Cap.Type(), "cap")
		if c < n {
			in.goPanicf("runtime error: makeslice: cap out of range")
		}
	}
	z := in.zero(elem)
	e := make([]Value, n)
	for i := range e {
		e[i] = z
	}
	return in.newSlice(elem, e, c)
}

// allocSize concretises an allocation size; sizes above cfg.MaxAlloc that are feasible are reported.
func (in *Interp) allocSize(t *Term, tt types.Type, what string) int {
	_, sg, _ := intWidth(tt)
	if t.IsConst() {
		var v int64
		if sg {
			v = t.Int64()
		} else if t.C.IsInt64() {
			v = t.C.Int64()
		} else {
			v = -1
		}
		if v < 0 {
			in.goPanicf("runtime error: makeslice: %s out of range", what)
		}
		if v > int64(in.cfg.MaxAlloc) {
			in.hugeAlloc(v)
		}
		return int(v)
	}
	lim := int64(in.cfg.MaxAlloc)
	// is a huge / negative size reachable?
	var big *Term
	if sg {
		big = Or(BVSlt(t, BVConst64(0, t.S.W)), BVSlt(BVConstI(lim, t.S.W), t))
	} else {
		big = BVUlt(BVConstI(lim, t.S.W), t)
	}
	if in.branch(big) {
		in.hugeAlloc(-1)
	}
	smallMax := int64(in.param("symalloc", 8))
	v, ok := in.concretize(t, 0, smallMax, sg)
	if !ok {
		// sizes between smallMax and MaxAlloc: outside the explored bound
		panic(pathEnd{fmt.Sprintf("outside-bound: symbolic allocation size > %d not explored", smallMax)})
	}
	return int(v)
}

func (in *Interp) hugeAlloc(v int64) {
	in.goPanicf("ALLOC: attacker-controlled allocation size above %d elements (or negative)", in.cfg.MaxAlloc)
}

func (in *Interp) param(name string, def int) int {
	if v, ok := in.cfg.Params[name]; ok {
		return v
	}
	return def
}

func (in *Interp) sliceOp(fr *Frame, x *ssa.Slice) Value {
	v := in.force(in.get(fr, x.X))
	getIdx := func(sv ssa.Value, def int, max int) int {
		if sv == nil {
			return def
		}
		t := in.get(fr, sv).(*Term)
		_, sg, _ := intWidth(sv.Type())
		val, ok := in.concretize(t, 0, int64(max), sg)
		if !ok {
			in.goPanicf("runtime error: slice bounds out of range [symbolic or > %d]", max)
		}
		return int(val)
	}
	switch s := v.(type) {
	case StrV:
		lo := getIdx(x.Low, 0, len(s.B))
		hi := getIdx(x.High, len(s.B), len(s.B))
		if lo > hi {
			in.goPanicf("runtime error: slice bounds out of range [%d:%d]", lo, hi)
		}
		return StrV{s.B[lo:hi]}
	case SliceV:
		lo := getIdx(x.Low, 0, s.Cap)
		hi := getIdx(x.High, s.Len, s.Cap)
		mx := getIdx(x.Max, s.Cap, s.Cap)
		if lo > hi || hi > mx {
			in.goPanicf("runtime error: slice bounds out of range [%d:%d:%d] cap %d", lo, hi, mx, s.Cap)
		}
		if s.C == nil {
			return s
		}
		return SliceV{C: s.C, Path: s.Path, Off: s.Off + lo, Len: hi - lo, Cap: mx - lo}
	case PtrV: // *array
		if s.C == nil {
			in.goPanicf("runtime error: invalid memory address or nil pointer dereference")
		}
		n := int(x.X.Type().Underlying().(*types.Pointer).Elem().Underlying().(*types.Array).Len())
		lo := getIdx(x.Low, 0, n)
		hi := getIdx(x.High, n, n)
		mx := getIdx(x.Max, n, n)
		if lo > hi || hi > mx {
			in.goPanicf("runtime error: slice bounds out of range [%d:%d:%d]", lo, hi, mx)
		}
		return SliceV{C: s.C, Path: s.Path, Off: lo, Len: hi - lo, Cap: mx - lo}
	}
	in.fail("slice of %T", v)
	return nil
}

func (in *Interp) typeAssert(fr *Frame, x *ssa.TypeAssert) Value {
	v := in.force(in.get(fr, x.X))
	iv, ok := v.(IfaceV)
	if !ok {
		in.fail("typeAssert on %T", v)
	}
	okv := false
	var res Value
	if iv.T != nil {
		if it, isI := x.AssertedType.Underlying().(*types.Interface); isI {
			if in.implements(iv.T, it) {
				okv = true
				res = iv
			}
		} else if types.Identical(iv.T, x.AssertedType) {
			okv = true
			res = iv.V
		}
	}
	if x.CommaOk {
		if !okv {
			res = in.zero(x.AssertedType)
		}
		return TupleV{res, BoolConst(okv)}
	}
	if !okv {
		if iv.T == nil {
			in.goPanicf("interface conversion: interface is nil, not %s", x.AssertedType)
		}
		in.goPanicf("interface conversion: interface is %s, not %s", iv.T, x.AssertedType)
	}
	return res
}

func (in *Interp) implements(t types.Type, it *types.Interface) bool {
	if it.NumMethods() == 0 {
		return true
	}
	return types.Implements(t, it)
}

// ---------------------------------------------------------------- channels

func (in *Interp) chanSend(ch ChanV, v Value, blocking bool) bool {
	if ch.Ch == nil {
		if blocking {
			in.goPanicf("DEADLOCK: send on nil channel blocks forever")
		}
		return false
	}
	if ch.Ch.Closed {
		in.goPanicf("send on closed channel")
	}
	if len(ch.Ch.Q) >= ch.Ch.Cap {
		if blocking {
			if in.onBlockedSend != nil && in.onBlockedSend(ch.Ch, v) {
				return true
			}
			if ch.Ch.Consumed && len(ch.Ch.Q) > 0 {
				ch.Ch.Q = append(append([]Value{}, ch.Ch.Q[1:]...), v)
				return true
			}
			in.goPanicf("DEADLOCK: send on full channel (cap %d) blocks with no concurrent receiver", ch.Ch.Cap)
		}
		return false
	}
	ch.Ch.Q = append(ch.Ch.Q, v)
	return true
}

func (in *Interp) chanRecv(ch ChanV, t types.Type, commaOk bool) (Value, bool) {
	if ch.Ch == nil {
		in.goPanicf("DEADLOCK: receive on nil channel blocks forever")
	}
	if len(ch.Ch.Q) > 0 {
		v := ch.Ch.Q[0]
		ch.Ch.Q = ch.Ch.Q[1:]
		return v, true
	}
	if ch.Ch.Closed {
		et := t
		if tt, ok := t.(*types.Tuple); ok {
			et = tt.At(0).Type()
		}
		return in.zero(et), false
	}
	in.goPanicf("DEADLOCK: receive on empty channel blocks with no concurrent sender")
	return nil, false
}

func (in *Interp) selectOp(fr *Frame, x *ssa.Select) Value {
	// result tuple: (index int, recvOk bool, r_0 T_0, ... r_n-1 T_n-1)
	tt := x.Type().(*types.Tuple)
	mk := func(idx int, ok bool, recvIdx int, rv Value) Value {
		tv := make(TupleV, tt.Len())
		tv[0] = BVConstI(int64(idx), 64)
		tv[1] = BoolConst(ok)
		k := 2
		for i, st := range x.States {
			if st.Dir == types.RecvOnly {
				if i == recvIdx {
					tv[k] = rv
				} else {
					tv[k] = in.zero(tt.At(k).Type())
				}
				k++
			}
		}
		return tv
	}
	for i, st := range x.States {
		ch := in.get(fr, st.Chan).(ChanV)
		if st.Dir == types.SendOnly {
			if ch.Ch != nil && ch.Ch.Closed {
				in.goPanicf("send on closed channel")
			}
			if ch.Ch != nil && len(ch.Ch.Q) < ch.Ch.Cap {
				ch.Ch.Q = append(ch.Ch.Q, in.get(fr, st.Send))
				return mk(i, false, -1, nil)
			}
		} else {
			if ch.Ch != nil && (len(ch.Ch.Q) > 0 || ch.Ch.Closed) {
				et := st.Chan.Type().Underlying().(*types.Chan).Elem()
				v, ok := in.chanRecv(ch, et, true)
				return mk(i, ok, i, v)
			}
		}
	}
	if !x.Blocking {
		return mk(-1, false, -1, nil)
	}
	in.goPanicf("DEADLOCK: blocking select with no ready case")
	return nil
}

func (in *Interp) goStmt(fr *Frame, c *ssa.CallCommon, fnv Value, args []Value) {
	if in.onGo != nil {
		in.onGo(func() { in.invokePrepared(fr, c, fnv, args) })
		return
	}
	in.fail("go statement not supported in this mode")
}
