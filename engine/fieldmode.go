package main

// Field mode: scalars are rational functions over Q in the run's indeterminates, points are their discrete logs.
// Equalities are decided by z3 (nonlinear real arithmetic, one-shot) and cross-checked by the engine's normaliser.

import (
	"crypto/sha256"
	"fmt"
	"math/big"
	"sort"
	"strings"
	"time"
)

const curvePkg = repoMod + "/pkg/math/curve."

type FScal struct {
	N, D   *Poly
	tn, td *Term
}

func (*FScal) ModelName() string { return "fscal" }

type FPoint struct{ S *FScal }

func (*FPoint) ModelName() string { return "fpoint" }

type FieldState struct {
	generic  map[string]*Poly // polynomials assumed non-zero
	genOrder []string
	eqCache  map[string]bool
	registry map[string]Value // opaque byte encodings -> value
	queries  int
	fresh    int
	names    map[string]string
}

func (in *Interp) fs() *FieldState {
	if in.field == nil {
		in.field = &FieldState{generic: map[string]*Poly{}, eqCache: map[string]bool{}, registry: map[string]Value{}, names: map[string]string{}}
	}
	return in.field
}

func (f *FieldState) genericityList() []string {
	var out []string
	for _, k := range f.genOrder {
		out = append(out, f.generic[k].String()+" != 0")
	}
	sort.Strings(out)
	return out
}

func (in *Interp) assumeNonZero(p *Poly) {
	if _, ok := p.IsConst(); ok {
		return
	}
	f := in.fs()
	k := p.Key()
	if _, ok := f.generic[k]; !ok {
		f.generic[k] = p
		f.genOrder = append(f.genOrder, k)
	}
}

var one = polyInt(1)
var rone = RealConst(big.NewInt(1))

func fsConstRat(c *big.Rat) *FScal {
	return &FScal{N: polyConst(c), D: one, tn: ratTerm(c), td: rone}
}
func fsInt(v *big.Int) *FScal { return fsConstRat(new(big.Rat).SetInt(v)) }
func fsVar(name string) *FScal {
	return &FScal{N: polyVar(name), D: one, tn: Var(name, RealSort), td: rone}
}

func (a *FScal) norm() *FScal {
	if c, ok := a.D.IsConst(); ok && c.Cmp(big.NewRat(1, 1)) != 0 && c.Sign() != 0 {
		inv := new(big.Rat).Inv(c)
		return &FScal{N: a.N.Scale(inv), D: one, tn: Mul(a.tn, ratTerm(inv)), td: rone}
	}
	return a
}

func fsAdd(a, b *FScal) *FScal {
	if a.D == one && b.D == one {
		return &FScal{N: a.N.Add(b.N), D: one, tn: Add(a.tn, b.tn), td: rone}
	}
	return (&FScal{N: a.N.Mul(b.D).Add(b.N.Mul(a.D)), D: a.D.Mul(b.D), tn: Add(Mul(a.tn, b.td), Mul(b.tn, a.td)), td: Mul(a.td, b.td)}).norm()
}
func fsNeg(a *FScal) *FScal { return &FScal{N: a.N.Neg(), D: a.D, tn: Neg(a.tn), td: a.td} }
func fsSub(a, b *FScal) *FScal { return fsAdd(a, fsNeg(b)) }
func fsMul(a, b *FScal) *FScal {
	if a.D == one && b.D == one {
		return &FScal{N: a.N.Mul(b.N), D: one, tn: Mul(a.tn, b.tn), td: rone}
	}
	return (&FScal{N: a.N.Mul(b.N), D: a.D.Mul(b.D), tn: Mul(a.tn, b.tn), td: Mul(a.td, b.td)}).norm()
}
func (in *Interp) fsInv(a *FScal) *FScal {
	if a.N.IsZero() {
		return fsInt(big.NewInt(0)) // the library defines the inverse of 0 as 0
	}
	in.assumeNonZero(a.N)
	return (&FScal{N: a.D, D: a.N, tn: a.td, td: a.tn}).norm()
}

func (a *FScal) key() string {
	if a.D == one {
		return a.N.Key()
	}
	return a.N.Key() + "/" + a.D.Key()
}

func shortKey(k string) string {
	d := sha256.Sum256([]byte(k))
	return fmt.Sprintf("%x", d[:6])
}

// fieldIsZero decides whether a is identically zero: z3 on the unexpanded term, cross-checked with the normaliser.
func (in *Interp) fieldIsZero(a *FScal) bool {
	f := in.fs()
	k := a.key()
	if v, ok := f.eqCache[k]; ok {
		return v
	}
	engineZero := a.N.IsZero()
	var res bool
	if a.tn.IsConst() {
		res = a.tn.C.Sign() == 0
	} else {
		t0 := time.Now()
		asserts := []*Term{Not(Eq(a.tn, RealConst(big.NewInt(0))))}
		var gvars []*Term
		for _, gk := range f.genOrder {
			asserts = append(asserts, Not(Eq(f.generic[gk].Term(), RealConst(big.NewInt(0)))))
		}
		if !a.td.IsConst() {
			asserts = append(asserts, Not(Eq(a.td, RealConst(big.NewInt(0)))))
		}
		r, _ := in.nra.OneShot(asserts, gvars)
		f.queries++
		_ = t0
		switch r {
		case Unsat:
			res = true
		case Sat:
			res = false
		default:
			in.fail("field identity: solver answered unknown for %s", a.N.String())
		}
	}
	if res != engineZero {
		in.fail("field identity: solver (%v) and normaliser (%v) disagree on %s", res, engineZero, a.N.String())
	}
	if !res {
		in.assumeNonZero(a.N) // generically non-zero: recorded
	}
	f.eqCache[k] = res
	return res
}

func (in *Interp) fieldEq(a, b *FScal) bool { return in.fieldIsZero(fsSub(a, b)) }

// ---- access helpers

func (in *Interp) fscal(v Value) *FScal {
	if iv, ok := v.(IfaceV); ok {
		if iv.T == nil {
			in.goPanicf("runtime error: invalid memory address or nil pointer dereference (nil curve.Scalar)")
		}
		if !strings.HasSuffix(iv.T.String(), "curve.Secp256k1Scalar") {
			in.goPanicf("failed to convert to secp256k1Scalar")
		}
		v = iv.V
	}
	p, ok := v.(PtrV)
	if !ok {
		in.fail("fscal: %T", v)
	}
	x := in.load(p)
	s, ok := x.(*FScal)
	if !ok {
		in.fail("fscal: pointer to %T (value not created in field mode)", x)
	}
	return s
}

func (in *Interp) fpoint(v Value) *FPoint {
	if iv, ok := v.(IfaceV); ok {
		if iv.T == nil {
			in.goPanicf("runtime error: invalid memory address or nil pointer dereference (nil curve.Point)")
		}
		if !strings.HasSuffix(iv.T.String(), "curve.Secp256k1Point") {
			in.goPanicf("failed to convert to secp256k1Point")
		}
		v = iv.V
	}
	p, ok := v.(PtrV)
	if !ok {
		in.fail("fpoint: %T", v)
	}
	x := in.load(p)
	s, ok := x.(*FPoint)
	if !ok {
		in.fail("fpoint: pointer to %T", x)
	}
	return s
}

func (in *Interp) newScalarIface(s *FScal) Value {
	t := in.namedType(repoMod+"/pkg/math/curve", "Secp256k1Scalar")
	c := in.newCell(t, s)
	return IfaceV{T: typesPtr(t), V: PtrV{C: c}}
}
func (in *Interp) newPointIface(p *FPoint) Value {
	t := in.namedType(repoMod+"/pkg/math/curve", "Secp256k1Point")
	c := in.newCell(t, p)
	return IfaceV{T: typesPtr(t), V: PtrV{C: c}}
}

func (in *Interp) selfScalar(recv Value) Value {
	t := in.namedType(repoMod+"/pkg/math/curve", "Secp256k1Scalar")
	return IfaceV{T: typesPtr(t), V: recv}
}
func (in *Interp) selfPoint(recv Value) Value {
	t := in.namedType(repoMod+"/pkg/math/curve", "Secp256k1Point")
	return IfaceV{T: typesPtr(t), V: recv}
}

// opaque encodings: an injective function of the value, realised as constant bytes derived from the canonical key
// (distinct values get distinct encodings, equal values equal ones; no solver variables involved)
func (in *Interp) opaqueBytes(prefix, key string, n int, val Value) []*Term {
	out := make([]*Term, 0, n)
	var raw []byte
	for ctr := 0; len(raw) < n; ctr++ {
		d := sha256.Sum256([]byte(fmt.Sprintf("%s|%d|%s", prefix, ctr, key)))
		raw = append(raw, d[:]...)
	}
	raw = raw[:n]
	if raw[0] == 0 {
		raw[0] = 1
	}
	for _, b := range raw {
		out = append(out, BVConst64(uint64(b), 8))
	}
	in.fs().registry[prefix+":"+fmt.Sprintf("%x", raw)] = val
	return out
}

func (in *Interp) lookupOpaqueKind(prefix string, bs []*Term) (Value, bool) {
	raw, ok := allConstBytes(bs)
	if !ok {
		return nil, false
	}
	v, ok := in.fs().registry[prefix+":"+fmt.Sprintf("%x", raw)]
	return v, ok
}

func (in *Interp) lookupOpaque(bs []*Term) (Value, bool) {
	for _, p := range []string{"sc", "pt"} {
		if v, ok := in.lookupOpaqueKind(p, bs); ok && v != nil {
			return v, true
		}
	}
	return nil, false
}

type liftEntry struct {
	P *FPoint
	K string
}

func (*liftEntry) ModelName() string { return "lift" }

func (in *Interp) freshIndet(prefix string) *FScal {
	f := in.fs()
	f.fresh++
	return fsVar(fmt.Sprintf("%s%d", prefix, f.fresh))
}

func init() {
	modeZero["field"] = map[string]func(in *Interp) Value{
		curvePkg + "Secp256k1Scalar": func(in *Interp) Value { return fsInt(big.NewInt(0)) },
		curvePkg + "Secp256k1Point":  func(in *Interp) Value { return &FPoint{S: fsInt(big.NewInt(0))} },
	}
	T := map[string]Intrinsic{}
	modeIntrinsics["field"] = T
	S := func(name string, f Intrinsic) { T["(*"+curvePkg+"Secp256k1Scalar)."+name] = f }
	P := func(name string, f Intrinsic) { T["(*"+curvePkg+"Secp256k1Point)."+name] = f }

	setS := func(in *Interp, recv Value, s *FScal) Value {
		in.store(recv.(PtrV), s)
		return in.selfScalar(recv)
	}
	S("Add", func(in *Interp, fr *Frame, a []Value) Value { return setS(in, a[0], fsAdd(in.fscal(a[0]), in.fscal(a[1]))) })
	S("Sub", func(in *Interp, fr *Frame, a []Value) Value { return setS(in, a[0], fsSub(in.fscal(a[0]), in.fscal(a[1]))) })
	S("Mul", func(in *Interp, fr *Frame, a []Value) Value { return setS(in, a[0], fsMul(in.fscal(a[0]), in.fscal(a[1]))) })
	S("Invert", func(in *Interp, fr *Frame, a []Value) Value { return setS(in, a[0], in.fsInv(in.fscal(a[0]))) })
	S("Negate", func(in *Interp, fr *Frame, a []Value) Value { return setS(in, a[0], fsNeg(in.fscal(a[0]))) })
	S("Set", func(in *Interp, fr *Frame, a []Value) Value { in.fscal(a[0]); return setS(in, a[0], in.fscal(a[1])) })
	S("Equal", func(in *Interp, fr *Frame, a []Value) Value { return BoolConst(in.fieldEq(in.fscal(a[0]), in.fscal(a[1]))) })
	S("IsZero", func(in *Interp, fr *Frame, a []Value) Value { return BoolConst(in.fieldIsZero(in.fscal(a[0]))) })
	S("IsOverHalfOrder", func(in *Interp, fr *Frame, a []Value) Value {
		s := in.fscal(a[0])
		// an uninterpreted predicate of the value with overhalf(-s) = !overhalf(s): decided by forking
		k, nk := s.key(), fsNeg(s).key()
		flip := false
		if nk < k {
			k, flip = nk, true
		}
		v := Var("overhalf("+shortKey(k)+")", BoolSort)
		r := in.branch(v)
		if flip {
			r = !r
		}
		return BoolConst(r)
	})
	S("SetNat", func(in *Interp, fr *Frame, a []Value) Value {
		in.fscal(a[0])
		n := in.num(a[1])
		if n.conc() {
			return setS(in, a[0], fsInt(n.C))
		}
		// symbolic natural (e.g. from hash bytes): an indeterminate keyed by the source bytes / the term
		if n.B != nil {
			return setS(in, a[0], fsVar(bytesScalarName(n.B)))
		}
		return setS(in, a[0], fsVar(fmt.Sprintf("nat%d", n.T.id)))
	})
	S("Act", func(in *Interp, fr *Frame, a []Value) Value {
		return in.newPointIface(&FPoint{S: fsMul(in.fscal(a[0]), in.fpoint(a[1]).S)})
	})
	S("ActOnBase", func(in *Interp, fr *Frame, a []Value) Value { return in.newPointIface(&FPoint{S: in.fscal(a[0])}) })
	S("MarshalBinary", func(in *Interp, fr *Frame, a []Value) Value {
		s := in.fscal(a[0])
		if c, ok := s.N.IsConst(); ok && s.D == one && c.IsInt() && c.Sign() >= 0 && c.Num().BitLen() <= 256 {
			b := make([]byte, 32)
			c.Num().FillBytes(b)
			ts := make([]*Term, 32)
			for i := range ts {
				ts[i] = BVConst64(uint64(b[i]), 8)
			}
			return tup(in.byteSlice(ts), nilErr)
		}
		return tup(in.byteSlice(in.opaqueBytes("sc", s.key(), 32, s)), nilErr)
	})
	S("UnmarshalBinary", func(in *Interp, fr *Frame, a []Value) Value {
		in.fscal(a[0])
		bs := in.bytesOf(a[1])
		if len(bs) != 32 {
			return in.mkError("invalid length for secp256k1 scalar", nil)
		}
		if v, ok := in.lookupOpaque(bs); ok {
			if s, ok := v.(*FScal); ok {
				in.store(a[0].(PtrV), s)
				return nilErr
			}
		}
		if cb, ok := allConstBytes(bs); ok {
			in.store(a[0].(PtrV), fsInt(new(big.Int).SetBytes(cb)))
			return nilErr
		}
		// arbitrary bytes: an indeterminate keyed by the byte terms (values >= group order are outside the
		// genericity set)
		in.store(a[0].(PtrV), fsVar(bytesScalarName(bs)))
		return nilErr
	})
	// points
	P("Add", func(in *Interp, fr *Frame, a []Value) Value {
		return in.newPointIface(&FPoint{S: fsAdd(in.fpoint(a[0]).S, in.fpoint(a[1]).S)})
	})
	P("Sub", func(in *Interp, fr *Frame, a []Value) Value {
		return in.newPointIface(&FPoint{S: fsSub(in.fpoint(a[0]).S, in.fpoint(a[1]).S)})
	})
	P("Negate", func(in *Interp, fr *Frame, a []Value) Value { return in.newPointIface(&FPoint{S: fsNeg(in.fpoint(a[0]).S)}) })
	P("Set", func(in *Interp, fr *Frame, a []Value) Value {
		in.fpoint(a[0])
		in.store(a[0].(PtrV), in.fpoint(a[1]))
		return in.selfPoint(a[0])
	})
	P("Equal", func(in *Interp, fr *Frame, a []Value) Value {
		return BoolConst(in.fieldEq(in.fpoint(a[0]).S, in.fpoint(a[1]).S))
	})
	P("IsIdentity", func(in *Interp, fr *Frame, a []Value) Value {
		if p, ok := a[0].(PtrV); ok && p.C == nil {
			return True
		}
		return BoolConst(in.fieldIsZero(in.fpoint(a[0]).S))
	})
	pkey := func(s *FScal) (string, bool) {
		k, nk := s.key(), fsNeg(s).key()
		if nk < k {
			return nk, true
		}
		return k, false
	}
	P("HasEvenY", func(in *Interp, fr *Frame, a []Value) Value {
		s := in.fpoint(a[0]).S
		k, flip := pkey(s)
		r := in.branch(Var("evenY("+shortKey(k)+")", BoolSort))
		if flip {
			r = !r
		}
		return BoolConst(r)
	})
	P("XScalar", func(in *Interp, fr *Frame, a []Value) Value {
		s := in.fpoint(a[0]).S
		k, _ := pkey(s)
		return in.newScalarIface(fsVar("x_" + shortKey(k)))
	})
	P("XBytes", func(in *Interp, fr *Frame, a []Value) Value {
		s := in.fpoint(a[0]).S
		k, flip := pkey(s)
		canon := s
		if flip {
			canon = fsNeg(s)
		}
		return in.byteSlice(in.opaqueBytes("xb", k, 32, &liftEntry{P: &FPoint{S: canon}, K: shortKey(k)}))
	})
	// compressed encoding: parity byte (2 even / 3 odd) followed by the 32 x-bytes (opaque, shared by P and -P)
	P("MarshalBinary", func(in *Interp, fr *Frame, a []Value) Value {
		p := in.fpoint(a[0])
		k, flip := pkey(p.S)
		canon := p.S
		if flip {
			canon = fsNeg(p.S)
		}
		xb := in.opaqueBytes("xb", k, 32, &liftEntry{P: &FPoint{S: canon}, K: shortKey(k)})
		even := Var("evenY("+shortKey(k)+")", BoolSort) // parity of the canonical representative
		if flip {
			even = Not(even)
		}
		if v, ok := in.knownBool("evenY(" + shortKey(k) + ")"); ok {
			// parity already decided on this path: emit the constant so that syntactically different but equal streams
			// (a caller writing the literal 0x02) are recognised as the same hash input
			even = BoolConst(v != flip)
		}
		out := append([]*Term{Ite(even, BVConst64(2, 8), BVConst64(3, 8))}, xb...)
		return tup(in.byteSlice(out), nilErr)
	})
	P("UnmarshalBinary", func(in *Interp, fr *Frame, a []Value) Value {
		in.fpoint(a[0])
		bs := in.bytesOf(a[1])
		if len(bs) != 33 {
			return in.mkError("invalid length for secp256k1Point", nil)
		}
		if v, ok := in.lookupOpaqueKind("xb", bs[1:]); ok {
			le := v.(*liftEntry)
			evenCanon := Var("evenY("+le.K+")", BoolSort)
			is2, is3 := Eq(bs[0], BVConst64(2, 8)), Eq(bs[0], BVConst64(3, 8))
			if !in.branch(Or(is2, is3)) {
				return in.mkError("invalid point prefix", nil)
			}
			// the encoded point is the representative whose parity matches the prefix
			if in.branch(Eq(is2, evenCanon)) {
				in.store(a[0].(PtrV), le.P)
			} else {
				in.store(a[0].(PtrV), &FPoint{S: fsNeg(le.P.S)})
			}
			return nilErr
		}
		in.store(a[0].(PtrV), &FPoint{S: fsVar(fmt.Sprintf("ptbytes%d", bs[1].id))})
		return nilErr
	})
	T["("+curvePkg+"Secp256k1).NewBasePoint"] = func(in *Interp, fr *Frame, a []Value) Value {
		return in.newPointIface(&FPoint{S: fsInt(big.NewInt(1))})
	}
	T["("+curvePkg+"Secp256k1).LiftX"] = func(in *Interp, fr *Frame, a []Value) Value {
		bs := in.bytesOf(a[1])
		if len(bs) != 32 {
			in.fail("LiftX: unexpected length in field mode")
		}
		// x-only bytes produced by XBytes of a known point: lift_x returns the representative with even Y
		if v, ok := in.lookupOpaqueKind("xb", bs); ok {
			le := v.(*liftEntry)
			p := le.P
			if !in.branch(Var("evenY("+le.K+")", BoolSort)) {
				p = &FPoint{S: fsNeg(p.S)}
			}
			t := in.namedType(repoMod+"/pkg/math/curve", "Secp256k1Point")
			return tup(PtrV{C: in.newCell(t, p)}, nilErr)
		}
		return tup(PtrV{}, in.mkError("x coordinate not on curve (unknown bytes in field mode)", nil))
	}
	// randomness and hash-to-scalar
	T[repoMod+"/pkg/math/sample.Scalar"] = func(in *Interp, fr *Frame, a []Value) Value {
		r := a[0].(IfaceV)
		if r.T == nil {
			in.goPanicf("nil io.Reader")
		}
		if p, ok := r.V.(PtrV); ok && p.C != nil {
			if d, ok := p.C.V.(*DigestM); ok {
				s := fsVar(fmt.Sprintf("H%d_%d", d.App.id, d.Pos))
				in.store(p, &DigestM{App: d.App, Pos: d.Pos + 48})
				return in.newScalarIface(s)
			}
		}
		return in.newScalarIface(in.freshIndet("r"))
	}
}

// bytesScalarName: canonical indeterminate for "the scalar with this big-endian encoding" (leading zero bytes ignored).
func bytesScalarName(bs []*Term) string {
	for len(bs) > 0 && bs[0].IsConst() && bs[0].C.Sign() == 0 {
		bs = bs[1:]
	}
	var sb strings.Builder
	for _, b := range bs {
		fmt.Fprintf(&sb, "%d,", b.id)
	}
	return "sb_" + shortKey(sb.String())
}

func (in *Interp) fieldOn() bool {
	for _, m := range strings.Split(in.cfg.Mode, ",") {
		if m == "field" {
			return true
		}
	}
	return false
}
