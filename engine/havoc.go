package main

import (
	"fmt"
	"go/types"
	"sort"
)

type HavocOpts struct {
	MaxLen int
}

// Snap is a structural snapshot of a value graph.
type Snap struct {
	Kind string // term, str, nil, struct, arr, ptr, back, map, iface, model, func, chan
	T    *Term
	S    []*Term
	Sub  []*Snap
	Keys []*Snap
	Tag  string
}

type snapV struct{ S *Snap }

func (*snapV) ModelName() string { return "snapshot" }

func (in *Interp) snapshot(v Value, depth int, seen map[*Cell]int) *Snap {
	if depth > 60 {
		return &Snap{Kind: "deep"}
	}
	switch x := v.(type) {
	case nil:
		return &Snap{Kind: "nil"}
	case *Term:
		return &Snap{Kind: "term", T: x}
	case StrV:
		return &Snap{Kind: "str", S: x.B}
	case *StructV:
		s := &Snap{Kind: "struct"}
		for _, f := range x.F {
			s.Sub = append(s.Sub, in.snapshot(f, depth+1, seen))
		}
		return s
	case *ArrV:
		s := &Snap{Kind: "arr"}
		for _, f := range x.E {
			s.Sub = append(s.Sub, in.snapshot(f, depth+1, seen))
		}
		return s
	case PtrV:
		if x.C == nil {
			return &Snap{Kind: "nil"}
		}
		if len(x.Path) == 0 {
			if id, ok := seen[x.C]; ok {
				return &Snap{Kind: "back", Tag: fmt.Sprint(id)}
			}
			seen[x.C] = len(seen)
		}
		return &Snap{Kind: "ptr", Sub: []*Snap{in.snapshot(in.load(x), depth+1, seen)}}
	case SliceV:
		if x.C == nil {
			return &Snap{Kind: "nil"}
		}
		s := &Snap{Kind: "arr"}
		for _, f := range in.sliceElems(x) {
			s.Sub = append(s.Sub, in.snapshot(f, depth+1, seen))
		}
		return s
	case MapV:
		if x.M == nil {
			return &Snap{Kind: "nil"}
		}
		s := &Snap{Kind: "map"}
		idx := []int{}
		for i := range x.M.Keys {
			if !x.M.Del[i] {
				idx = append(idx, i)
			}
		}
		sort.SliceStable(idx, func(a, b int) bool {
			ka, oa := keyString(x.M.Keys[idx[a]])
			kb, ob := keyString(x.M.Keys[idx[b]])
			return oa && ob && ka < kb
		})
		for _, i := range idx {
			s.Keys = append(s.Keys, in.snapshot(x.M.Keys[i], depth+1, seen))
			s.Sub = append(s.Sub, in.snapshot(x.M.Vals[i], depth+1, seen))
		}
		return s
	case IfaceV:
		if x.T == nil {
			return &Snap{Kind: "nil"}
		}
		return &Snap{Kind: "iface", Tag: x.T.String(), Sub: []*Snap{in.snapshot(x.V, depth+1, seen)}}
	case ChanV:
		if x.Ch == nil {
			return &Snap{Kind: "nil"}
		}
		s := &Snap{Kind: "chan", Tag: fmt.Sprint(x.Ch.Closed)}
		for _, f := range x.Ch.Q {
			s.Sub = append(s.Sub, in.snapshot(f, depth+1, seen))
		}
		return s
	case FuncV:
		return &Snap{Kind: "func"}
	case TupleV:
		s := &Snap{Kind: "struct"}
		for _, f := range x {
			s.Sub = append(s.Sub, in.snapshot(f, depth+1, seen))
		}
		return s
	case *HasherM:
		return &Snap{Kind: "str", S: append(append([]*Term{}, x.Key...), x.Stream...), Tag: x.Kind}
	case *MutexM:
		return &Snap{Kind: "model", Tag: fmt.Sprint("mutex held=", x.Held)}
	case *ErrV:
		return &Snap{Kind: "model", Tag: "error"} // error texts are not compared
	case *LazyV:
		return &Snap{Kind: "model", Tag: "lazy:" + x.Name}
	case ModelVal:
		if sm, ok := v.(interface{ SnapModel(in *Interp) *Snap }); ok {
			return sm.SnapModel(in)
		}
		return &Snap{Kind: "model", Tag: fmt.Sprintf("%p", v)}
	}
	return &Snap{Kind: "model", Tag: fmt.Sprintf("%T", v)}
}

func (in *Interp) snapEq(a, b *Snap) *Term {
	if a.Kind != b.Kind || a.Tag != b.Tag || len(a.Sub) != len(b.Sub) || len(a.S) != len(b.S) || len(a.Keys) != len(b.Keys) {
		return False
	}
	var cs []*Term
	if a.T != nil {
		if a.T.S != b.T.S {
			return False
		}
		cs = append(cs, Eq(a.T, b.T))
	}
	for i := range a.S {
		cs = append(cs, Eq(a.S[i], b.S[i]))
	}
	for i := range a.Keys {
		cs = append(cs, in.snapEq(a.Keys[i], b.Keys[i]))
	}
	for i := range a.Sub {
		c := in.snapEq(a.Sub[i], b.Sub[i])
		if c.IsFalse() {
			return False
		}
		cs = append(cs, c)
	}
	return And(cs...)
}

func (in *Interp) materialize(lz *LazyV) Value {
	return in.havocValue(lz.T, lz.Name, lz.Opt, 0)
}

func (in *Interp) havocPtr(iv IfaceV, name string) {
	p, ok := iv.V.(PtrV)
	if !ok || p.C == nil {
		in.fail("Havoc needs a non-nil pointer")
	}
	elem := iv.T.Underlying().(*types.Pointer).Elem()
	in.store(p, in.havocValue(elem, name, &HavocOpts{MaxLen: in.param("havoclen", 2)}, 0))
}

// havocValue builds an arbitrary value of type t. Pointers/slices/maps/interfaces decide their shape by forking.
func (in *Interp) havocValue(t types.Type, name string, opt *HavocOpts, depth int) Value {
	if depth > 12 {
		return in.zero(t)
	}
	if n, ok := t.(*types.Named); ok {
		if f, ok := havocModel[typeKey(n)]; ok {
			return f(in, name, opt)
		}
	}
	switch u := t.Underlying().(type) {
	case *types.Basic:
		if w, _, ok := intWidth(u); ok {
			return in.freshVar(name, BV(w))
		}
		if u.Info()&types.IsBoolean != 0 {
			return in.freshVar(name, BoolSort)
		}
		if u.Info()&types.IsString != 0 {
			n := in.chooseLen(name, 0, opt.MaxLen)
			return StrV{in.freshBytes(name, n)}
		}
	case *types.Struct:
		f := make([]Value, u.NumFields())
		for i := range f {
			f[i] = in.havocValue(u.Field(i).Type(), name+"."+u.Field(i).Name(), opt, depth+1)
		}
		return &StructV{f}
	case *types.Array:
		n := int(u.Len())
		e := make([]Value, n)
		for i := range e {
			if n > 8 {
				e[i] = &LazyV{T: u.Elem(), Name: fmt.Sprintf("%s[%d]", name, i), Opt: opt}
			} else {
				e[i] = in.havocValue(u.Elem(), fmt.Sprintf("%s[%d]", name, i), opt, depth+1)
			}
		}
		return &ArrV{e}
	case *types.Chan:
		// an arbitrary channel cannot be modelled: a havoc'd object holds nil channels (recorded as a stub)
		in.stubsSeen["havoc: channel fields are nil"] = true
		return in.zero(t)
	case *types.Pointer:
		if in.param("havocnonnil", 0) == 0 && depth <= in.param("havocnildepth", 99) {
			nilv := in.freshVar(name+".nil", BoolSort)
			if in.branch(nilv) {
				return PtrV{}
			}
		}
		if depth > in.param("havocnildepth", 99) && in.param("havocshallow", 0) == 1 {
			// shallow mode: below the explored depth a present object is the zero value of its type (what a decoder leaves
			// for an empty map), except for number-like models which stay arbitrary
			if n, ok := u.Elem().(*types.Named); ok {
				if _, isModel := havocModel[typeKey(n)]; !isModel {
					return PtrV{C: in.newCell(u.Elem(), in.zero(u.Elem()))}
				}
			}
		}
		c := in.newCell(u.Elem(), in.havocValue(u.Elem(), name+".*", opt, depth+1))
		return PtrV{C: c}
	case *types.Slice:
		nilv := in.freshVar(name+".nil", BoolSort)
		if in.branch(nilv) {
			return SliceV{}
		}
		n := in.chooseLen(name, 0, opt.MaxLen)
		e := make([]Value, n)
		for i := range e {
			e[i] = in.havocValue(u.Elem(), fmt.Sprintf("%s[%d]", name, i), opt, depth+1)
		}
		return in.newSlice(u.Elem(), e, n)
	}
	if u, ok := t.Underlying().(*types.Map); ok && isString(u.Key()) {
		// nil, or any subset of the party universe {"a","b","c"} as keys with arbitrary values
		if in.param("havocnonnil", 0) == 0 {
			nilv := in.freshVar(name+".nil", BoolSort)
			if in.branch(nilv) {
				return MapV{}
			}
		}
		in.cellSeq++
		m := &MapObj{ID: in.cellSeq}
		mask := in.param("havockeys", 7)
		for ki, k := range []string{"a", "b", "c"} {
			if mask&(1<<uint(ki)) == 0 {
				continue
			}
			if in.branch(in.freshVar(name+".has."+k, BoolSort)) {
				m.Keys = append(m.Keys, concStr(k))
				m.Vals = append(m.Vals, in.havocValue(u.Elem(), name+"["+k+"]", opt, depth+1))
				m.Del = append(m.Del, false)
			}
		}
		return MapV{m}
	}
	if _, ok := t.Underlying().(*types.Interface); ok {
		// a curve.Curve field is never decoded: it is the (unexported) group a proof/message was pre-shaped with by Empty(group)
		if in.param("havocnonnil", 0) == 0 && typeKey(t) != curvePkg+"Curve" {
			nilv := in.freshVar(name+".nil", BoolSort)
			if in.branch(nilv) {
				return IfaceV{}
			}
		}
		switch typeKey(t) {
		case curvePkg + "Point":
			ct := in.namedType(repoMod+"/pkg/math/curve", "Secp256k1Point")
			c := in.newCell(ct, in.havocValue(ct, name+".pt", opt, depth+1))
			return IfaceV{T: types.NewPointer(ct), V: PtrV{C: c}}
		case curvePkg + "Scalar":
			ct := in.namedType(repoMod+"/pkg/math/curve", "Secp256k1Scalar")
			c := in.newCell(ct, in.havocValue(ct, name+".sc", opt, depth+1))
			return IfaceV{T: types.NewPointer(ct), V: PtrV{C: c}}
		case curvePkg + "Curve":
			ct := in.namedType(repoMod+"/pkg/math/curve", "Secp256k1")
			return IfaceV{T: ct, V: in.zero(ct)}
		}
	}
	in.fail("havoc: unsupported type %s", t)
	return nil
}

var havocModel = map[string]func(in *Interp, name string, opt *HavocOpts) Value{}

func init() {
	symNumH := func(bits int, signed bool) func(in *Interp, name string, opt *HavocOpts) Value {
		return func(in *Interp, name string, opt *HavocOpts) Value {
			v := in.freshVar(name, IntSort)
			lim := pow2(bits)
			if signed {
				in.assume(And(Lt(Neg(lim), v), Lt(v, lim)))
			} else {
				in.assume(And(Le(IntConstI(0), v), Lt(v, lim)))
			}
			return symNum(v, bits)
		}
	}
	havocModel[sfPkg+"Nat"] = symNumH(4200, false)
	havocModel[sfPkg+"Int"] = symNumH(4200, true)
	havocModel["math/big.Int"] = symNumH(4200, true)
	// paillier.Ciphertext only ever comes out of UnmarshalBinary / Enc: its inner number is never nil.
	havocModel[repoMod+"/pkg/paillier.Ciphertext"] = func(in *Interp, name string, opt *HavocOpts) Value {
		nt := in.namedType("github.com/cronokirby/saferith", "Nat")
		c := in.newCell(nt, havocModel[sfPkg+"Nat"](in, name+".c", opt))
		return &StructV{[]Value{PtrV{C: c}}}
	}
	// a havoc'd hasher is a fresh one (its prior input is not arbitrary; recorded as a stub)
	havocModel["github.com/zeebo/blake3.Hasher"] = func(in *Interp, name string, opt *HavocOpts) Value {
		in.stubsSeen["havoc: a blake3.Hasher inside a havoc'd object is a fresh hasher"] = true
		return &HasherM{Kind: "blake3"}
	}
	havocModel[dcrPkg+"ModNScalar"] = func(in *Interp, name string, opt *HavocOpts) Value { return in.freshElem(false, name) }
	havocModel[dcrPkg+"FieldVal"] = func(in *Interp, name string, opt *HavocOpts) Value { return in.freshElem(true, name) }
}

// havocInto overwrites *dst with arbitrary content as a decoder could produce it: exported fields arbitrary,
// unexported fields kept.
func (in *Interp) havocInto(dst PtrV, t types.Type, name string) {
	opt := &HavocOpts{MaxLen: in.param("havoclen", 2)}
	if st, ok := t.Underlying().(*types.Struct); ok {
		if _, isModel := modelZero[typeKey(t)]; !isModel {
			if _, isH := havocModel[typeKey(t)]; !isH {
				cur := in.load(dst).(*StructV)
				f := make([]Value, len(cur.F))
				for i := range f {
					if st.Field(i).Exported() {
						f[i] = in.havocField(cur.F[i], st.Field(i).Type(), name+"."+st.Field(i).Name(), opt)
					} else {
						f[i] = cur.F[i]
					}
				}
				in.store(dst, &StructV{f})
				return
			}
		}
	}
	in.store(dst, in.havocValue(t, name, opt, 0))
}

// havocField: decode into an existing field value (pre-shaped pointers/interfaces keep their dynamic type).
func (in *Interp) havocField(cur Value, t types.Type, name string, opt *HavocOpts) Value {
	switch u := t.Underlying().(type) {
	case *types.Interface:
		iv, _ := cur.(IfaceV)
		if iv.T == nil {
			// cbor cannot decode into a nil non-empty interface: decoding error or field absent
			return cur
		}
		// pre-shaped: content arbitrary, dynamic type kept
		if p, ok := iv.V.(PtrV); ok && p.C != nil {
			nc := in.newCell(p.C.T, in.havocValue(p.C.T, name, opt, 1))
			return IfaceV{T: iv.T, V: PtrV{C: nc}}
		}
		return cur
	case *types.Pointer:
		p, _ := cur.(PtrV)
		if p.C != nil {
			// pre-shaped pointer: absent key keeps it, present key decodes into it (or null sets nil)
			present := in.freshVar(name+".present", BoolSort)
			if !in.branch(present) {
				return cur
			}
			nc := in.newCell(u.Elem(), in.load(p))
			in.havocInto(PtrV{C: nc}, u.Elem(), name+".*")
			return PtrV{C: nc}
		}
	}
	return in.havocValue(t, name, opt, 1)
}
