package main

import (
	"fmt"
	"go/types"
	"math/big"
	"time"
)

const vsymPkg = repoMod + "/internal/vsym."

func (in *Interp) symName(base string) string {
	in.symNames[base]++
	if n := in.symNames[base]; n > 1 {
		return fmt.Sprintf("%s#%d", base, n)
	}
	return base
}

func (in *Interp) freshVar(base string, s Sort) *Term {
	v := Var(in.symName(base), s)
	in.symVars = append(in.symVars, v)
	return v
}

func argStr(v Value) string {
	s, _ := v.(StrV).goStringPrefix()
	return s
}

func (in *Interp) freshBytes(name string, n int) []*Term {
	out := make([]*Term, n)
	base := in.symName(name)
	for i := range out {
		out[i] = Var(fmt.Sprintf("%s[%d]", base, i), BV(8))
		in.symVars = append(in.symVars, out[i])
	}
	return out
}

func (in *Interp) chooseLen(name string, lo, hi int) int {
	if lo == hi {
		return lo
	}
	// length is a symbolic variable that is case-split immediately
	lv := in.freshVar(name+".len", BV(64))
	in.assume(And(BVSle(i64(int64(lo)), lv), BVSle(lv, i64(int64(hi)))))
	v, ok := in.concretize(lv, int64(lo), int64(hi), true)
	if !ok {
		panic(pathEnd{"length out of bound"})
	}
	return int(v)
}

func init() {
	reg := func(name string, f Intrinsic) { intrinsics[vsymPkg+name] = f }
	reg("Int", func(in *Interp, fr *Frame, a []Value) Value {
		v := in.freshVar(argStr(a[0]), BV(64))
		in.assume(And(BVSle(a[1].(*Term), v), BVSle(v, a[2].(*Term))))
		return v
	})
	reg("Uint64", func(in *Interp, fr *Frame, a []Value) Value { return in.freshVar(argStr(a[0]), BV(64)) })
	reg("Uint32", func(in *Interp, fr *Frame, a []Value) Value { return in.freshVar(argStr(a[0]), BV(32)) })
	reg("Uint16", func(in *Interp, fr *Frame, a []Value) Value { return in.freshVar(argStr(a[0]), BV(16)) })
	reg("Byte", func(in *Interp, fr *Frame, a []Value) Value { return in.freshVar(argStr(a[0]), BV(8)) })
	reg("Bool", func(in *Interp, fr *Frame, a []Value) Value { return in.freshVar(argStr(a[0]), BoolSort) })
	reg("Bytes", func(in *Interp, fr *Frame, a []Value) Value {
		name := argStr(a[0])
		n := in.chooseLen(name, int(a[1].(*Term).Int64()), int(a[2].(*Term).Int64()))
		return in.byteSlice(in.freshBytes(name, n))
	})
	reg("String", func(in *Interp, fr *Frame, a []Value) Value {
		name := argStr(a[0])
		n := in.chooseLen(name, int(a[1].(*Term).Int64()), int(a[2].(*Term).Int64()))
		return StrV{in.freshBytes(name, n)}
	})
	reg("Assume", func(in *Interp, fr *Frame, a []Value) Value {
		c := a[0].(*Term)
		if c.IsFalse() {
			panic(pathEnd{"assumption false"})
		}
		if !c.IsTrue() {
			k := len(in.trace)
			if k >= len(in.prefix) { // beyond the prefix the assumption must be checked for satisfiability
				if in.feasible(c) == Unsat {
					panic(pathEnd{"assumption infeasible"})
				}
			}
			in.assume(c)
		}
		return nil
	})
	reg("Assert", func(in *Interp, fr *Frame, a []Value) Value {
		in.obligation("assert", argStr(a[1]), a[0].(*Term))
		return nil
	})
	reg("Reach", func(in *Interp, fr *Frame, a []Value) Value {
		in.witnesses[argStr(a[0])] = true
		return nil
	})
	reg("Choose", func(in *Interp, fr *Frame, a []Value) Value {
		n := int(a[1].(*Term).Int64())
		v := in.freshVar(argStr(a[0]), BV(64))
		in.assume(And(BVSle(i64(0), v), BVSlt(v, i64(int64(n)))))
		r, ok := in.concretize(v, 0, int64(n-1), true)
		if !ok {
			panic(pathEnd{"choose out of range"})
		}
		return i64(r)
	})
	reg("Concrete", func(in *Interp, fr *Frame, a []Value) Value {
		r, ok := in.concretize(a[0].(*Term), a[1].(*Term).Int64(), a[2].(*Term).Int64(), true)
		if !ok {
			panic(pathEnd{"bound: Concrete out of range"})
		}
		return i64(r)
	})
	reg("And", func(in *Interp, fr *Frame, a []Value) Value { return And(a[0].(*Term), a[1].(*Term)) })
	reg("Or", func(in *Interp, fr *Frame, a []Value) Value { return Or(a[0].(*Term), a[1].(*Term)) })
	reg("Not", func(in *Interp, fr *Frame, a []Value) Value { return Not(a[0].(*Term)) })
	reg("Implies", func(in *Interp, fr *Frame, a []Value) Value { return Implies(a[0].(*Term), a[1].(*Term)) })
	reg("BytesEq", func(in *Interp, fr *Frame, a []Value) Value { return intrinsics["bytes.Equal"](in, fr, a) })
	reg("StrEq", func(in *Interp, fr *Frame, a []Value) Value { return in.valEq(a[0], a[1]) })
	reg("ExpectPanic", func(in *Interp, fr *Frame, a []Value) (ret Value) {
		depth, stack := in.depth, in.callStack
		defer func() {
			if r := recover(); r != nil {
				if gp, ok := r.(*goPanic); ok {
					in.depth, in.callStack = depth, stack
					in.lastPanic = gp
				in.pathNotes = append(in.pathNotes, "caught panic: "+gp.Msg+" at "+gp.Pos)
					ret = True
					return
				}
				panic(r)
			}
		}()
		in.callValue(fr, a[0], nil)
		return False
	})
	reg("MergeBool", func(in *Interp, fr *Frame, a []Value) Value { return in.mergeBool(fr, a[0]) })
	reg("Native", func(in *Interp, fr *Frame, a []Value) Value { return False })
	reg("StuckRand", func(in *Interp, fr *Frame, a []Value) Value {
		in.misc["stuckRand"] = a[0].(*Term).IsTrue()
		return nil
	})
	reg("Note", func(in *Interp, fr *Frame, a []Value) Value {
		in.pathNotes = append(in.pathNotes, argStr(a[0]))
		return nil
	})
	reg("Param", func(in *Interp, fr *Frame, a []Value) Value {
		return i64(int64(in.param(argStr(a[0]), int(a[1].(*Term).Int64()))))
	})
	reg("Stop", func(in *Interp, fr *Frame, a []Value) Value { panic(pathEnd{"stop"}) })
	reg("Havoc", func(in *Interp, fr *Frame, a []Value) Value {
		iv := a[0].(IfaceV)
		in.havocPtr(iv, argStr(a[1]))
		return nil
	})
	reg("Consumed", func(in *Interp, fr *Frame, a []Value) Value {
		if iv, ok := a[0].(IfaceV); ok {
			if c, ok := iv.V.(ChanV); ok && c.Ch != nil {
				c.Ch.Consumed = true
			}
		}
		return nil
	})
	reg("HavocInto", func(in *Interp, fr *Frame, a []Value) Value {
		iv := a[0].(IfaceV)
		p, ok := iv.V.(PtrV)
		if !ok || p.C == nil {
			in.fail("HavocInto needs a non-nil pointer")
		}
		in.havocInto(p, iv.T.Underlying().(*types.Pointer).Elem(), argStr(a[1]))
		return nil
	})
	reg("Snapshot", func(in *Interp, fr *Frame, a []Value) Value {
		return IfaceV{T: in.namedType("errors", "errorString"), V: &snapV{in.snapshot(a[0], 0, map[*Cell]int{})}}
	})
	reg("Same", func(in *Interp, fr *Frame, a []Value) Value {
		x := a[0].(IfaceV).V.(*snapV)
		y := a[1].(IfaceV).V.(*snapV)
		return in.snapEq(x.S, y.S)
	})
}

// obligation checks PC ⇒ c. sat(PC ∧ ¬c) is a counterexample.
func (in *Interp) obligation(kind, label string, c *Term) {
	t0 := time.Now()
	ob := Obligation{Harness: in.curHarness, Label: label, Kind: kind}
	if c.IsTrue() {
		ob.Verdict = "discharged"
		ob.Detail = "constant-folded"
		in.obligations = append(in.obligations, ob)
		return
	}
	var r Result
	var m map[string]*big.Int
	if c.IsFalse() {
		r, m = in.solver.CheckModel(in.symVars)
	} else {
		r, m = in.solver.CheckModel(in.symVars, Not(c))
	}
	ob.Seconds = time.Since(t0).Seconds()
	switch r {
	case Unsat:
		ob.Verdict = "discharged"
	case Sat:
		ob.Verdict = "violated"
		ob.Model = in.modelStrings(m)
		ob.Path = append([]int{}, in.trace...)
		ob.Detail = "at " + in.where()
		if n := len(in.pathNotes); n > 0 {
			ob.Detail += " [" + in.pathNotes[n-1] + "]"
		}
	default:
		ob.Verdict = "unknown"
		ob.Path = append([]int{}, in.trace...)
	}
	in.obligations = append(in.obligations, ob)
	if r != Unsat {
		// continue under the assumption that the assertion holds (if possible)
		if c.IsFalse() || in.feasible(c) == Unsat {
			panic(pathEnd{"after failed assertion"})
		}
	}
	in.assume(c)
}

func (in *Interp) modelStrings(m map[string]*big.Int) map[string]string {
	out := map[string]string{}
	for _, v := range in.symVars {
		if x, ok := m[v.Name]; ok {
			out[v.Name] = x.String()
		}
	}
	return out
}

// mergeBool explores all paths of a pure closure returning bool and merges them into one formula.
// The closure must not modify state that existed before the call (checked for cells via IDs is not
// possible in general; harnesses use it only around pure validation/verification calls).
func (in *Interp) mergeBool(fr *Frame, f Value) Value {
	savedPrefix, savedTrace, savedPending, savedPC := in.prefix, in.trace, in.pending, in.pc
	nh := len(in.hashes)
	var axioms []*Term
	savedAx := in.axiomLog
	in.axiomLog = &axioms
	result := False
	type sub struct{ prefix []int }
	work := [][]int{{}}
	n := 0
	var failure interface{}
	for len(work) > 0 && failure == nil {
		p := work[len(work)-1]
		work = work[:len(work)-1]
		n++
		if n > in.param("mergepaths", 5000) {
			failure = pathEnd{"bound: MergeBool sub-path budget"}
			break
		}
		in.prefix, in.trace, in.pending = p, nil, nil
		in.pc = savedPC[:len(savedPC):len(savedPC)]
		in.solver.Push()
		for _, ax := range axioms {
			in.solver.Assert(ax)
		}
		depth, stack := in.depth, in.callStack
		func() {
			defer func() {
				if r := recover(); r != nil {
					in.depth, in.callStack = depth, stack
					switch e := r.(type) {
					case pathEnd:
						if e.Why == "infeasible" || e.Why == "assumption false" || e.Why == "assumption infeasible" {
							return
						}
						failure = r
					default:
						failure = r
					}
				}
			}()
			v := in.callValue(fr, f, nil).(*Term)
			cond := And(in.pc[len(savedPC):]...)
			result = Or(result, And(cond, v))
		}()
		in.solver.Pop()
		work = append(work, in.pending...)
	}
	_ = nh
	in.prefix, in.trace, in.pending, in.pc = savedPrefix, savedTrace, savedPending, savedPC
	in.axiomLog = savedAx
	if failure != nil {
		panic(failure)
	}
	for _, ax := range axioms {
		in.assumeAxiom(ax)
	}
	return result
}

func init() {
	intrinsics[vsymPkg+"SymNat"] = func(in *Interp, fr *Frame, a []Value) Value {
		bits := int(a[1].(*Term).Int64())
		v := in.freshVar(argStr(a[0]), IntSort)
		in.assume(And(Le(IntConstI(0), v), Lt(v, pow2(bits))))
		return in.newNumPtr("Nat", symNum(v, bits))
	}
	intrinsics[vsymPkg+"SymInt"] = func(in *Interp, fr *Frame, a []Value) Value {
		bits := int(a[1].(*Term).Int64())
		v := in.freshVar(argStr(a[0]), IntSort)
		in.assume(And(Lt(Neg(pow2(bits)), v), Lt(v, pow2(bits))))
		return in.newNumPtr("Int", symNum(v, bits))
	}
}

func init() {
	intrinsics[vsymPkg+"SelectBytes"] = func(in *Interp, fr *Frame, a []Value) Value {
		c := a[0].(*Term)
		x, y := in.bytesOf(a[1]), in.bytesOf(a[2])
		if len(x) != len(y) {
			in.fail("SelectBytes: different lengths")
		}
		out := make([]*Term, len(x))
		for i := range x {
			out[i] = Ite(c, x[i], y[i])
		}
		return in.byteSlice(out)
	}
}
