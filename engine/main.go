package main

import (
	"flag"
	"fmt"
	"os"
	"sort"
	"strings"

	"golang.org/x/tools/go/packages"
	"golang.org/x/tools/go/ssa"
	"golang.org/x/tools/go/ssa/ssautil"
)

const repoMod = "github.com/taurusgroup/multi-party-sig"

type Loaded struct {
	prog *ssa.Program
	pkgs []*ssa.Package
	all  []*packages.Package
}

// loadRepo loads /repo/... from the current working tree with overlay files (virtual path -> real file).
var repoDir = func() string {
	if d := os.Getenv("VERIF_REPO"); d != "" {
		return d
	}
	return "/repo"
}()

func loadRepo(overlay map[string]string, tags string, patterns ...string) *Loaded {
	ov := map[string][]byte{}
	for v, r := range overlay {
		b, err := os.ReadFile(r)
		if err != nil {
			fmt.Fprintln(os.Stderr, "overlay:", err)
			os.Exit(2)
		}
		ov[v] = b
	}
	cfg := &packages.Config{
		Mode:       packages.LoadAllSyntax,
		Dir:        repoDir,
		Overlay:    ov,
		BuildFlags: []string{"-tags=" + tags},
		Env:        append(os.Environ(), "GOFLAGS=-mod=mod", "GOPROXY=off", "GOSUMDB=off", "GOTOOLCHAIN=local"),
	}
	if len(patterns) == 0 {
		patterns = []string{"./...", "./internal/vharn", "./internal/vsym"}
	}
	pkgs, err := packages.Load(cfg, patterns...)
	if err != nil {
		fmt.Fprintln(os.Stderr, "load:", err)
		os.Exit(2)
	}
	bad := false
	packages.Visit(pkgs, nil, func(p *packages.Package) {
		for _, e := range p.Errors {
			if strings.HasPrefix(p.PkgPath, repoMod) {
				fmt.Fprintln(os.Stderr, "load error:", e)
				bad = true
			}
		}
	})
	if bad {
		os.Exit(2)
	}
	prog, spkgs := ssautil.AllPackages(pkgs, ssa.InstantiateGenerics)
	for _, p := range spkgs {
		if p != nil {
			p.Build()
		}
	}
	return &Loaded{prog: prog, pkgs: spkgs, all: pkgs}
}

func main() {
	if len(os.Args) < 2 {
		fmt.Fprintln(os.Stderr, "usage: gosym run|callees ...")
		os.Exit(2)
	}
	switch os.Args[1] {
	case "callees":
		cmdCallees()
	case "run":
		cmdRun(os.Args[2:])
	case "bmc":
		cmdBMC(os.Args[2:])
	default:
		fmt.Fprintln(os.Stderr, "unknown command")
		os.Exit(2)
	}
}

func cmdCallees() {
	fs := flag.NewFlagSet("callees", flag.ExitOnError)
	fs.Parse(os.Args[2:])
	ld := loadRepo(nil, "verif")
	ext := map[string]int{}
	for fn := range ssautil.AllFunctions(ld.prog) {
		if fn.Pkg == nil || !strings.HasPrefix(fn.Pkg.Pkg.Path(), repoMod) {
			continue
		}
		for _, b := range fn.Blocks {
			for _, ins := range b.Instrs {
				var cc *ssa.CallCommon
				switch x := ins.(type) {
				case *ssa.Call:
					cc = &x.Call
				case *ssa.Defer:
					cc = &x.Call
				case *ssa.Go:
					cc = &x.Call
				}
				if cc == nil {
					continue
				}
				if cc.IsInvoke() {
					ext["invoke "+cc.Method.FullName()]++
					continue
				}
				if f, ok := cc.Value.(*ssa.Function); ok {
					if f.Pkg == nil || !strings.HasPrefix(f.Pkg.Pkg.Path(), repoMod) {
						ext[f.String()]++
					}
				}
			}
		}
	}
	var names []string
	for n := range ext {
		names = append(names, n)
	}
	sort.Strings(names)
	for _, n := range names {
		fmt.Printf("%4d %s\n", ext[n], n)
	}
}
