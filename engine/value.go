package main

// Value domain of the symbolic interpreter.

import (
	"fmt"
	"go/types"
	"strings"

	"golang.org/x/tools/go/ssa"
)

type Value interface{}

// *Term: integers (BV) and booleans.

type StrV struct{ B []*Term } // immutable; concrete length, per-byte terms

type Cell struct {
	V   Value
	T   types.Type
	ID  int
	Tag string
	Watch bool
}

type PtrV struct {
	C    *Cell
	Path []int
}

type SliceV struct {
	C        *Cell // cell whose value (at Path) is an *ArrV
	Path     []int
	Off, Len int
	Cap      int
}

type ArrV struct{ E []Value }    // immutable once stored
type StructV struct{ F []Value } // immutable once stored

type MapObj struct {
	Keys []Value
	Vals []Value
	Del  []bool
	ID   int
	Owner *accessOwner
}
type MapV struct{ M *MapObj }

type IfaceV struct {
	T types.Type // dynamic type; nil => nil interface
	V Value
}

type FuncV struct {
	Fn   *ssa.Function
	Env  []Value
	Intr Intrinsic // engine-provided function value
}

type ChanObj struct {
	Q      []Value
	Cap    int
	Closed bool
	ID     int
	// Consumed: a concurrent consumer reads this channel (vsym.Consumed): a send on the full channel does not block,
	// the oldest message is handed to the consumer
	Consumed bool
}
type ChanV struct{ Ch *ChanObj }

type TupleV []Value

// MapIter is the state of a Range over a map or string.
type MapIter struct {
	Keys []Value
	Vals []Value
	Pos  int
	Str  *StrV
}

// LazyV is an unmaterialised symbolic value of type T (havoc). It is resolved on first use.
type LazyV struct {
	T    types.Type
	Name string
	Opt  *HavocOpts
}

// ModelVal marks engine-side model objects stored in cells (hashers, buffers, nats, scalars ...).
type ModelVal interface{ ModelName() string }

func isNilValue(v Value) bool {
	switch x := v.(type) {
	case nil:
		return true
	case PtrV:
		return x.C == nil
	case SliceV:
		return x.C == nil
	case MapV:
		return x.M == nil
	case IfaceV:
		return x.T == nil
	case FuncV:
		return x.Fn == nil && x.Intr == nil
	case ChanV:
		return x.Ch == nil
	}
	return false
}

func intWidth(t types.Type) (w int, signed bool, ok bool) {
	b, isb := t.Underlying().(*types.Basic)
	if !isb {
		return 0, false, false
	}
	switch b.Kind() {
	case types.Int8:
		return 8, true, true
	case types.Int16:
		return 16, true, true
	case types.Int32, types.UntypedRune:
		return 32, true, true
	case types.Int64, types.Int, types.UntypedInt:
		return 64, true, true
	case types.Uint8:
		return 8, false, true
	case types.Uint16:
		return 16, false, true
	case types.Uint32:
		return 32, false, true
	case types.Uint64, types.Uint, types.Uintptr:
		return 64, false, true
	}
	return 0, false, false
}

func isString(t types.Type) bool {
	b, ok := t.Underlying().(*types.Basic)
	return ok && b.Info()&types.IsString != 0
}
func isBool(t types.Type) bool {
	b, ok := t.Underlying().(*types.Basic)
	return ok && b.Info()&types.IsBoolean != 0
}

func typeKey(t types.Type) string { return types.TypeString(t, nil) }

func concStr(s string) StrV {
	b := make([]*Term, len(s))
	for i := 0; i < len(s); i++ {
		b[i] = BVConst64(uint64(s[i]), 8)
	}
	return StrV{b}
}

// goString returns the concrete Go string if all bytes are constant.
func (s StrV) goString() (string, bool) {
	var sb strings.Builder
	for _, b := range s.B {
		if !b.IsConst() {
			return "", false
		}
		sb.WriteByte(byte(b.Uint64()))
	}
	return sb.String(), true
}

func (s StrV) String() string {
	if g, ok := s.goString(); ok {
		return fmt.Sprintf("%q", g)
	}
	return fmt.Sprintf("<sym string len %d>", len(s.B))
}

func showValue(v Value) string {
	switch x := v.(type) {
	case nil:
		return "nil"
	case *Term:
		s := x.String()
		if len(s) > 120 {
			s = s[:120] + "…"
		}
		return s
	case StrV:
		return x.String()
	case PtrV:
		if x.C == nil {
			return "nil-ptr"
		}
		return fmt.Sprintf("&cell%d%v", x.C.ID, x.Path)
	case SliceV:
		if x.C == nil {
			return "nil-slice"
		}
		return fmt.Sprintf("slice(cell%d%v,%d:%d)", x.C.ID, x.Path, x.Off, x.Off+x.Len)
	case IfaceV:
		if x.T == nil {
			return "nil-iface"
		}
		return fmt.Sprintf("iface(%s, %s)", x.T, showValue(x.V))
	case *StructV:
		return fmt.Sprintf("struct{%d fields}", len(x.F))
	case *ArrV:
		return fmt.Sprintf("array[%d]", len(x.E))
	case MapV:
		if x.M == nil {
			return "nil-map"
		}
		return fmt.Sprintf("map(%d entries)", len(x.M.Keys))
	case FuncV:
		if x.Fn != nil {
			return "func " + x.Fn.String()
		}
		return "func(intrinsic)"
	case ModelVal:
		return x.ModelName()
	}
	return fmt.Sprintf("%T", v)
}
