package main

import (
	"fmt"
	"go/types"
	"os"
	"strings"

	"golang.org/x/tools/go/ssa"
)

func builtinIntr(b *ssa.Builtin) Intrinsic {
	name := b.Name()
	return func(in *Interp, fr *Frame, args []Value) Value {
		switch name {
		case "len":
			switch x := in.force(args[0]).(type) {
			case StrV:
				return BVConstI(int64(len(x.B)), 64)
			case SliceV:
				return BVConstI(int64(x.Len), 64)
			case MapV:
				if x.M == nil {
					return BVConstI(0, 64)
				}
				return BVConstI(int64(x.M.Len()), 64)
			case *ArrV:
				return BVConstI(int64(len(x.E)), 64)
			case PtrV:
				if x.C == nil {
					// len of nil *array is the static length; SSA passes typed value
					at := b.Type().(*types.Signature).Params().At(0).Type().Underlying().(*types.Pointer).Elem().Underlying().(*types.Array)
					return BVConstI(at.Len(), 64)
				}
				return BVConstI(int64(len(in.loadRaw(x).(*ArrV).E)), 64)
			case ChanV:
				if x.Ch == nil {
					return BVConstI(0, 64)
				}
				return BVConstI(int64(len(x.Ch.Q)), 64)
			}
			in.fail("len of %T", args[0])
		case "cap":
			switch x := in.force(args[0]).(type) {
			case SliceV:
				return BVConstI(int64(x.Cap), 64)
			case *ArrV:
				return BVConstI(int64(len(x.E)), 64)
			case ChanV:
				if x.Ch == nil {
					return BVConstI(0, 64)
				}
				return BVConstI(int64(x.Ch.Cap), 64)
			}
			in.fail("cap of %T", args[0])
		case "append":
			return in.appendOp(b, args)
		case "copy":
			dst := args[0].(SliceV)
			var src []Value
			switch s := in.force(args[1]).(type) {
			case SliceV:
				src = append([]Value{}, in.sliceElems(s)...)
			case StrV:
				for _, t := range s.B {
					src = append(src, t)
				}
			}
			n := len(src)
			if dst.Len < n {
				n = dst.Len
			}
			for i := 0; i < n; i++ {
				in.store(PtrV{dst.C, extPath(dst.Path, dst.Off+i)}, src[i])
			}
			return BVConstI(int64(n), 64)
		case "delete":
			m := args[0].(MapV)
			if m.M != nil {
				in.mapDelete(m.M, args[1])
			}
			return nil
		case "close":
			ch := args[0].(ChanV)
			if ch.Ch == nil {
				in.goPanicf("close of nil channel")
			}
			if ch.Ch.Closed {
				in.goPanicf("close of closed channel")
			}
			ch.Ch.Closed = true
			return nil
		case "panic":
			panic(&goPanic{V: args[0], Msg: in.panicMsg(args[0]), Pos: in.where()})
		case "recover":
			// fr is the frame executing the deferred function; the panicking frame is tracked globally
			if in.panicFrame != nil && in.panicFrame.panicking != nil && !in.panicFrame.recovered {
				in.panicFrame.recovered = true
				return in.panicFrame.panicking.V
			}
			return IfaceV{}
		case "print", "println":
			if in.cfg.Verbose {
				var parts []string
				for _, a := range args {
					parts = append(parts, showValue(a))
				}
				fmt.Fprintln(os.Stderr, "print:", strings.Join(parts, " "))
			}
			return nil
		case "min", "max":
			sig := b.Type().(*types.Signature)
			t := sig.Params().At(0).Type()
			_, sg, _ := intWidth(t)
			r := args[0].(*Term)
			for _, a := range args[1:] {
				y := a.(*Term)
				var lt *Term
				if sg {
					lt = BVSlt(y, r)
				} else {
					lt = BVUlt(y, r)
				}
				if name == "max" {
					lt = Not(Or(lt, Eq(y, r)))
				}
				r = Ite(lt, y, r)
			}
			return r
		case "ssa:wrapnilchk":
			if isNilValue(args[0]) {
				in.goPanicf("value method called using nil pointer")
			}
			return args[0]
		case "clear":
			switch x := args[0].(type) {
			case MapV:
				if x.M != nil {
					for i := range x.M.Del {
						x.M.Del[i] = true
					}
				}
			case SliceV:
				et := b.Type().(*types.Signature).Params().At(0).Type().Underlying().(*types.Slice).Elem()
				z := in.zero(et)
				for i := 0; i < x.Len; i++ {
					in.store(PtrV{x.C, extPath(x.Path, x.Off+i)}, z)
				}
			}
			return nil
		}
		in.fail("builtin %s unsupported", name)
		return nil
	}
}

func (in *Interp) appendOp(b *ssa.Builtin, args []Value) Value {
	sig := b.Type().(*types.Signature)
	st := sig.Params().At(0).Type().Underlying().(*types.Slice)
	dst := args[0].(SliceV)
	var src []Value
	switch s := in.force(args[1]).(type) {
	case SliceV:
		src = append([]Value{}, in.sliceElems(s)...)
	case StrV:
		for _, t := range s.B {
			src = append(src, t)
		}
	case nil:
	default:
		in.fail("append of %T", args[1])
	}
	if len(src) == 0 {
		return dst
	}
	if dst.C != nil && dst.Len+len(src) <= dst.Cap {
		for i, v := range src {
			in.store(PtrV{dst.C, extPath(dst.Path, dst.Off+dst.Len+i)}, v)
		}
		dst.Len += len(src)
		return dst
	}
	old := in.sliceElems(dst)
	all := make([]Value, 0, len(old)+len(src))
	all = append(append(all, old...), src...)
	nc := dst.Cap * 2
	if nc < len(all) {
		nc = len(all)
	}
	if nc > 1024 && nc > len(all)+len(all)/4 {
		nc = len(all) + len(all)/4
	}
	return in.newSlice(st.Elem(), all, nc)
}
