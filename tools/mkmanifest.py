#!/usr/bin/env python3
"""Regenerate MANIFEST.json from checks/*.json and na.json (not-applicable reasons)."""
import json, os, glob
R = os.path.dirname(os.path.dirname(os.path.abspath(__file__)))
props = [json.loads(l) for l in open(os.path.join(R, "properties.jsonl"))]
na = json.load(open(os.path.join(R, "na.json")))
checks = []
claimed = set()
for p in props:
    f = os.path.join(R, "checks", p["id"] + ".json")
    if not os.path.exists(f):
        continue
    s = json.load(open(f))
    if s.get("disabled"):
        continue
    claimed.add(p["id"])
    checks.append({
        "property_id": p["id"],
        "quick_cmd": f"./check {p['id']} quick",
        "thorough_cmd": f"./check {p['id']} thorough",
        "evidence_file": f"/verif/evidence/{p['id']}.json",
        "replay_cmd_template": "./check --replay {path}",
        "engine": "gosym",
        "level_claimed": {"category": "other", "text": s.get("level_text", s.get("explanation", "")), "design_ref": "DESIGN.md section 3 (" + p["id"] + ")"},
        "level_note": s.get("level_note", "; ".join(s.get("assumptions", []))),
        "technique": s.get("technique", "bounded symbolic execution of the Go SSA of the real code with z3 deciding every obligation (unsat = holds within the bound; sat = counterexample replayed natively)"),
    })
m = {
    "version": 1,
    "setup_cmd": "./setup.sh",
    "hooks": {"guard": "verif", "enable": "harnesses, the vsym package and replay tests enter through build overlays with -tags verif (nothing is written into /repo)",
              "baseline_off_cmd": "cd /repo && go test -vet=off -count=1 -timeout 25m ./...", "source_commits": [], "add_only": True},
    "engines": [{"name": "gosym", "path": "/verif/engine", "serves_properties": sorted(claimed),
                 "kind_free_text": "symbolic executor for Go SSA (go/packages + go/ssa v0.29.0) with SMT-LIB2 back end (z3 -in), forking by re-execution, native replay through go test -overlay"}],
    "checks": checks,
    "notes": "All checks: ./check <ID> quick|thorough; exit 0 held, 1 violation (VIOLATION line), 2 inconclusive. See DESIGN.md.",
    "not_applicable": [{"property_id": p["id"], "reason": na.get(p["id"], "check not built yet (see DESIGN.md)")} for p in props if p["id"] not in claimed],
}
json.dump(m, open(os.path.join(R, "MANIFEST.json"), "w"), indent=1)
print("claimed:", sorted(claimed))
