#!/bin/bash
# seedtest.sh <patch.diff> <check id> [VERIF_ONLY filter]: apply a seeded change to /repo, run the quick check, undo.
set -u
P=$1; ID=$2; ONLY=${3:-}
cd /repo || exit 9
git apply --check "$P" || { echo "PATCH-DOES-NOT-APPLY"; exit 8; }
git apply "$P"
cd /verif
if [ -n "$ONLY" ]; then VERIF_ONLY=$ONLY ./check $ID quick > /tmp/seedtest.$$ 2>&1; else ./check $ID quick > /tmp/seedtest.$$ 2>&1; fi
rc=$?
git -C /repo checkout -- .
grep -E "^VIOLATION|^  harness=|^KNOWN|^INCONCLUSIVE|quick:" /tmp/seedtest.$$ | cut -c1-260
echo "rc=$rc"
rm -f /tmp/seedtest.$$
git -C /verif checkout -- evidence 2>/dev/null
exit $rc
