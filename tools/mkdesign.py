#!/usr/bin/env python3
"""Regenerates the generated blocks of DESIGN.md (per-property scope from checks/*.json, seed matrix from seeded/*/meta.json,
fix list from known_findings.json). Hand-written text outside the markers is left alone."""
import json, os, re, glob
ROOT = os.path.dirname(os.path.dirname(os.path.abspath(__file__)))


def props():
    out = {}
    for l in open(os.path.join(ROOT, "properties.jsonl")):
        l = l.strip()
        if l:
            p = json.loads(l)
            out[p["id"]] = p
    return out


def fmt_bounds(b):
    if not isinstance(b, dict):
        return str(b)
    return "; ".join(f"{k} = {v}" for k, v in b.items())


def gen_properties():
    P = props()
    na = {}
    nap = os.path.join(ROOT, "na.json")
    if os.path.exists(nap):
        na = json.load(open(nap))
    out = []
    for pid in sorted(P):
        out.append(f"### {pid} — {P[pid]['title']}\n")
        sp = os.path.join(ROOT, "checks", pid + ".json")
        if not os.path.exists(sp):
            out.append(f"**Not claimed.** {na.get(pid, '')}\n")
            continue
        s = json.load(open(sp))
        out.append("**Decided:** " + s.get("explanation", "") + "\n")
        hs = []
        for r in s["runs"]:
            tag = ""
            if r.get("bmc"):
                tag = " [bmc: " + ",".join(r.get("props", [])) + "]"
            elif r.get("mode"):
                tag = f" [mode {r['mode']}]"
            if r.get("tiers") == ["thorough"]:
                tag += " [thorough only]"
            hs.append(f"`{r['pkg']}`: " + ", ".join(r["harness"]) + tag)
        out.append("**Harnesses (entry points, overlaid into the named package):** " + "; ".join(hs) + "\n")
        b = s.get("bounds", {})
        out.append("**Bounds, quick:** " + fmt_bounds(b.get("quick", b)) + "  \n**Bounds, thorough:** " + fmt_bounds(b.get("thorough", {})) + "\n")
        if s.get("assumptions"):
            out.append("**Assumptions / stubs that are part of the claim:**\n" + "\n".join(f"* {a}" for a in s["assumptions"]) + "\n")
        if s.get("outside"):
            out.append("**Outside the claim:**\n" + "\n".join(f"* {a}" for a in s["outside"]) + "\n")
        seeds = []
        for mp in sorted(glob.glob(os.path.join(ROOT, "seeded", pid + "-*", "meta.json"))):
            m = json.load(open(mp))
            det = m.get("detection", {})
            by = [f"{c['check']} / {x['harness']}" for c in det.get("checks", []) if c.get("rc") == 1 for x in c.get("caught_by", [])[:1]]
            st = "caught by " + ", ".join(by) if det.get("detected") else ("not run: " + det["error"][:80] if det.get("error") else ("missed" if det else "not yet run"))
            seeds.append(f"* `{m['seed']}` ({'confirmed' if m.get('confirmed') else 'NOT confirmed'}): {m.get('what', '')} — **{st}**" + (f". {m['miss_reason']}" if m.get("miss_reason") and not det.get("detected") else ""))
        if seeds:
            out.append("**Seeded changes:**\n" + "\n".join(seeds) + "\n")
    return "\n".join(out)


def gen_fixes():
    k = json.load(open(os.path.join(ROOT, "known_findings.json")))
    rows = []
    for f in k["findings"]:
        rows.append(f"* `{f.get('commit', '-')}` ({f['property']}, {f['status']}; reported by {f.get('harness', '?')}): " + re.sub(r"^fixed: property=\S+ \S+ ", "", f["what"]))
    return "\n".join(rows)


def gen_matrix():
    p = os.path.join(ROOT, "seeded", "MATRIX.md")
    return open(p).read() if os.path.exists(p) else "(not generated yet)"


def main():
    p = os.path.join(ROOT, "DESIGN.md")
    s = open(p).read()
    for name, fn in (("properties", gen_properties), ("fixes", gen_fixes), ("matrix", gen_matrix)):
        a, b = f"<!-- BEGIN GENERATED {name} -->", f"<!-- END GENERATED {name} -->"
        if a in s and b in s:
            s = s[:s.index(a) + len(a)] + "\n" + fn() + "\n" + s[s.index(b):]
    open(p, "w").write(s)


if __name__ == "__main__":
    main()
