#!/usr/bin/env python3
"""seedmatrix.py [seed ...]: run the registered quick checks against every seeded change, each in its own scratch worktree of
/repo (VERIF_REPO / VERIF_OUT keep /repo and the committed evidence untouched), and record the outcome in
seeded/<seed>/meta.json ("detection") and seeded/MATRIX.md."""
import json, os, re, subprocess, sys, shutil, concurrent.futures as cf

ROOT = os.path.dirname(os.path.dirname(os.path.abspath(__file__)))
SCR = os.environ.get("SEED_SCRATCH", "/tmp/seedrun")
# checks (besides the seed's own property) that exercise the same mechanism
EXTRA = {"C13-m1": [], "C02-m3": ["C08", "C03"], "C08-m3": ["C20", "C02"], "C03-m3": ["C02", "C16", "C05"], "C19-m3": ["C09"], "C06-m2": ["C07"], "C07-m2": ["C09"], "C05-m2": ["C17"], "C04-m1": ["C06"], "C09-m2": ["C03"],
         "C03-m1": ["C06"], "C03-m2": ["C07", "C04", "C05"], "C01-m1": ["C16"], "C02-m1": ["C16"], "C08-m1": ["C02"], "C08-m2": ["C03"]}


def run_seed(seed):
    sd = os.path.join(ROOT, "seeded", seed)
    meta = json.load(open(os.path.join(sd, "meta.json")))
    prop = meta.get("property", seed.split("-")[0])
    wt = os.path.join(SCR, "wt-" + seed)
    out = os.path.join(SCR, "out-" + seed)
    shutil.rmtree(out, ignore_errors=True)
    os.makedirs(out, exist_ok=True)
    subprocess.run(["git", "-C", "/repo", "worktree", "remove", "--force", wt], capture_output=True)
    r = subprocess.run(["git", "-C", "/repo", "worktree", "add", "--detach", wt, "HEAD"], capture_output=True, text=True)
    if r.returncode != 0:
        return seed, dict(error="worktree: " + r.stderr[-300:])
    det = dict(head=subprocess.run(["git", "-C", "/repo", "rev-parse", "--short", "HEAD"], capture_output=True, text=True).stdout.strip(), checks=[])
    try:
        r = subprocess.run(["git", "-C", wt, "apply", os.path.join(sd, "patch.diff")], capture_output=True, text=True)
        if r.returncode != 0:
            det["error"] = "patch does not apply to the current tree: " + r.stderr[-300:]
            return seed, det
        props = [prop] + EXTRA.get(seed, []) + EXTRA.get(prop, [])
        env = dict(os.environ, VERIF_REPO=wt, VERIF_OUT=out, VERIF_JOBS=os.environ.get("SEED_JOBS", "8"))
        for p in props:
            if not os.path.exists(os.path.join(ROOT, "checks", p + ".json")):
                det["checks"].append(dict(check=p, tier="quick", rc=None, note="property not claimed"))
                continue
            r = subprocess.run([os.path.join(ROOT, "check"), p, "quick"], env=env, capture_output=True, text=True, timeout=7200)
            txt = r.stdout + r.stderr
            hs = sorted(set(re.findall(r"^  harness=(\S+) kind=(\S+) label=(.{0,160})", txt, re.M)))
            det["checks"].append(dict(check=p, tier="quick", rc=r.returncode, violation_lines=len(re.findall(r"^VIOLATION", txt, re.M)),
                                      caught_by=[dict(harness=h, kind=k, label=l) for h, k, l in hs][:6],
                                      inconclusive=re.findall(r"^INCONCLUSIVE.*", txt, re.M)[:3], summary=(re.findall(r"^%s quick:.*" % p, txt, re.M) or [""])[-1]))
            if r.returncode == 1:
                break
        det["detected"] = any(c.get("rc") == 1 for c in det["checks"])
    finally:
        subprocess.run(["git", "-C", "/repo", "worktree", "remove", "--force", wt], capture_output=True)
        shutil.rmtree(out, ignore_errors=True)
    return seed, det


def main():
    seeds = sys.argv[1:] or sorted(d for d in os.listdir(os.path.join(ROOT, "seeded")) if os.path.isdir(os.path.join(ROOT, "seeded", d)))
    os.makedirs(SCR, exist_ok=True)
    with cf.ThreadPoolExecutor(max_workers=int(os.environ.get("SEED_PAR", "2"))) as ex:
        for seed, det in ex.map(run_seed, seeds):
            p = os.path.join(ROOT, "seeded", seed, "meta.json")
            m = json.load(open(p))
            m["detection"] = det
            json.dump(m, open(p, "w"), indent=1)
            print(seed, "DETECTED" if det.get("detected") else "missed", det.get("error", ""), [(c["check"], c["rc"]) for c in det["checks"]], flush=True)
    write_matrix()


def write_matrix():
    rows = []
    sdir = os.path.join(ROOT, "seeded")
    for seed in sorted(os.listdir(sdir)):
        mp = os.path.join(sdir, seed, "meta.json")
        if not os.path.exists(mp):
            continue
        m = json.load(open(mp))
        det = m.get("detection", {})
        by = "; ".join(f"{c['check']}:{x['harness']}" for c in det.get("checks", []) if c.get("rc") == 1 for x in c.get("caught_by", [])[:2])
        rows.append(f"| {seed} | {m.get('what', '')[:90]} | {'yes' if m.get('confirmed') else 'NO'} | "
                    f"{'caught' if det.get('detected') else ('n/a: ' + det['error'][:60] if det.get('error') else 'missed')} | {by} |")
    with open(os.path.join(sdir, "MATRIX.md"), "w") as f:
        f.write("| seed | change | confirmed | quick checks | caught by |\n|---|---|---|---|---|\n" + "\n".join(rows) + "\n")


if __name__ == "__main__":
    if sys.argv[1:] == ["--matrix"]:
        write_matrix()
    else:
        main()
