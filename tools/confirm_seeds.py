#!/usr/bin/env python3
"""Confirm seeded changes in a scratch worktree and store them under /verif/seeded/<property>-<k>/."""
import json, os, shutil, subprocess, sys, time
ENV = dict(os.environ, GOFLAGS="-mod=mod", GOPROXY="off", GOSUMDB="off", GOTOOLCHAIN="local")
SEEDS = {
 "C19-m1": ("pkg/hash/demo_c19_test.go", "go test -vet=off -count=1 -run TestDemoC19 ./pkg/hash/"),
 "C19-m2": ("pkg/hash/demo_c19_test.go", "go test -vet=off -count=1 -run TestDemoC19 ./pkg/hash/"),
 "C09-m1": ("protocols/cmp/c09_m1_demo_test.go", "go test -vet=off -count=1 -run TestC09DerivedKeySessionIsolation ./protocols/cmp/"),
 "C09-m2": ("protocols/frost/c09_m2_demo_test.go", "go test -vet=off -count=1 -run TestC09ProofReplayUnderOtherSender ./protocols/frost/"),
 "C06-m1": ("pkg/protocol/c06_m1_demo_test.go", "go test -vet=off -count=1 -run TestC06M1 ./pkg/protocol/"),
 "C06-m2": ("pkg/protocol/c06_m2_demo_test.go", "go test -vet=off -count=1 -run TestC06M2 ./pkg/protocol/"),
 "C07-m1": ("pkg/protocol/c07_m1_demo_test.go", "go test -vet=off -count=1 -run TestC07M1 ./pkg/protocol/"),
 "C07-m2": ("pkg/protocol/c07_m2_demo_test.go", "go test -vet=off -count=1 -run TestC07M2 ./pkg/protocol/"),
 "C17-m1": ("pkg/protocol/c17_m1_demo_test.go", "go test -vet=off -count=1 -run TestC17M1 ./pkg/protocol/"),
 "C17-m2": ("pkg/protocol/c17_m2_demo_test.go", "go test -vet=off -count=1 -run TestC17M2 ./pkg/protocol/"),
 "C05-m1": ("protocols/frost/keygen/demo_c05_m1_test.go", "go test -vet=off -count=1 -run TestC05M1 ./protocols/frost/keygen/"),
 "C05-m2": ("protocols/frost/demo_c05_m2_test.go", "go test -vet=off -count=1 -run TestC05M2 ./protocols/frost/"),
 "C04-m1": ("pkg/protocol/demo_c04_test.go", "go test -vet=off -count=1 -run TestDemoC04EquivocationNeverBlamesHonestParty ./pkg/protocol/"),
 "C04-m2": ("protocols/cmp/presign/demo_c04_test.go", "go test -vet=off -count=1 -run TestDemoC04SigmaShareCheaterIsSingledOut ./protocols/cmp/presign/"),
 "C20-m1": ("pkg/protocol/c20_m1_demo_test.go", "go test -vet=off -count=1 -run TestC20DuplicateIdentifierRefused ./pkg/protocol/"),
 "C20-m2": ("protocols/frost/c20_m2_demo_test.go", "go test -vet=off -count=1 -run TestC20SignerSetTooSmallRefused ./protocols/frost/"),
 "C15-m1": ("pkg/protocol/c15_demo_test.go", "go test -vet=off -count=1 -run TestC15 ./pkg/protocol/"),
 "C15-m2": ("pkg/ecdsa/c15_demo_test.go", "go test -vet=off -count=1 -run TestC15 ./pkg/ecdsa/"),
 "C11-m1": ("protocols/frost/sign/demo_c11_m1_test.go", "go test -vet=off -count=1 -run TestC11M1 ./protocols/frost/sign/"),
 "C11-m2": ("pkg/taproot/demo_c11_m2_test.go", "go test -vet=off -count=1 -run TestC11M2 ./pkg/taproot/"),
 "C10-m1": ("pkg/zk/fac/c10_m1_demo_test.go", "go test -vet=off -count=1 -run TestDemoC10FacUnbalancedFactors ./pkg/zk/fac/"),
 "C10-m2": ("pkg/zk/logstar/c10_m2_demo_test.go", "go test -vet=off -count=1 -run TestDemoC10LogstarBoundToAux ./pkg/zk/logstar/"),
 "C03-m1": ("protocols/frost/c03_m1_demo_test.go", "go test -vet=off -count=1 -run TestC03M1 ./protocols/frost/"),
 "C03-m2": ("protocols/frost/c03_m2_demo_test.go", "go test -vet=off -count=1 -run TestC03M2 ./protocols/frost/"),
 "C01-m1": ("protocols/doerner/c01_m1_demo_test.go", "go test -vet=off -count=1 -run TestC01M1 ./protocols/doerner/"),
 "C01-m2": ("protocols/frost/c01_m2_demo_test.go", "go test -vet=off -count=1 -run TestC01M2 ./protocols/frost/"),
 "C14-m1": ("internal/bip32/demo_test.go", "go test -vet=off -count=1 -run TestDemo ./internal/bip32/"),
 "C14-m2": ("protocols/cmp/sign/demo_test.go", "go test -vet=off -count=1 -run TestDemoSiblingDerivation ./protocols/cmp/sign/"),
 "C12-m1": ("pkg/paillier/zz_demo_c12_test.go", "go test -vet=off -count=1 -run TestDemoEncRangeBoundary ./pkg/paillier/"),
 "C12-m2": ("internal/mta/zz_demo_c12_test.go", "go test -vet=off -count=1 -run TestDemo ./internal/mta/"),
 "C16-m1": ("pkg/ecdsa/seed_c16_m1_test.go", "go test -vet=off -count=1 -run TestSeedC16M1 ./pkg/ecdsa/"),
 "C16-m2": ("pkg/taproot/seed_c16_m2_test.go", "go test -vet=off -count=1 -run TestSeedC16M2 ./pkg/taproot/"),
 "C02-m1": ("protocols/frost/keygen/c02_m1_demo_test.go", "go test -vet=off -count=1 -run TestC02M1 ./protocols/frost/keygen/"),
 "C02-m2": ("protocols/cmp/keygen/c02_m2_demo_test.go", "go test -vet=off -count=1 -timeout 20m -run TestC02M2 ./protocols/cmp/keygen/"),
 "C08-m1": ("protocols/cmp/c08_demo_test.go", "go test -vet=off -count=1 -run TestC08CMPRefresh ./protocols/cmp/"),
 "C08-m2": ("protocols/doerner/keygen/c08_demo_test.go", "go test -vet=off -count=1 -run TestC08DoernerRefresh ./protocols/doerner/keygen/"),
 "C13-m1": ("internal/ot/c13_m1_demo_test.go", "go test -vet=off -count=1 -run TestC13M1 ./internal/ot/"),
 "C13-m2": ("internal/ot/c13_m2_demo_test.go", "go test -vet=off -count=1 -run TestC13M2 ./internal/ot/"),
 "C18-m1": ("pkg/pool/demo_test.go", "go test -vet=off -count=1 -timeout 300s -run TestDemoParallelizeKeepsWorkers ./pkg/pool/"),
 "C10-m3": ("pkg/zk/nth/demo_c10_test.go", "go test -vet=off -count=1 -run TestDemoC10NthResponseShiftedByN ./pkg/zk/nth/"),
 "C19-m3": ("pkg/party/c19_demo_test.go", "go test -vet=off -count=1 -run TestC19 ./pkg/party/"),
 "C03-m3": ("protocols/frost/c03_m3_demo_test.go", "go test -vet=off -count=1 -run TestC03M3 ./protocols/frost/"),
 "C12-m3": ("pkg/paillier/demo_c12_test.go", "go test -vet=off -count=1 -run TestDemoC12 ./pkg/paillier/"),
 "C14-m3": ("internal/bip32/c14_m3_demo_test.go", "go test -vet=off -count=1 -run TestC14M3 ./internal/bip32/"),
 "C13-m3": ("internal/ot/demo_c13_m3_test.go", "go test -vet=off -count=1 -run TestDemoC13M3 ./internal/ot/"),
 "C02-m3": ("protocols/doerner/demo_c02_m3_test.go", "go test -vet=off -count=1 -run TestC02M3 ./protocols/doerner/"),
 "C08-m3": ("protocols/frost/c08_demo_test.go", "go test -vet=off -count=1 -run TestC08FrostRefreshSubset ./protocols/frost/"),
 "C18-m2": ("pkg/pool/demo_test.go", "go test -vet=off -count=1 -timeout 300s -run TestDemoSearchKeepsWorkers ./pkg/pool/"),
}
def sh(cmd, cwd, timeout=2400):
    r = subprocess.run(cmd, shell=True, cwd=cwd, env=ENV, capture_output=True, text=True, timeout=timeout)
    return r.returncode, (r.stdout + r.stderr)[-1500:]
def main():
    import concurrent.futures as cf
    which = sys.argv[1:] or sorted(SEEDS)
    with cf.ThreadPoolExecutor(max_workers=int(os.environ.get("SEED_PAR", "3"))) as ex:
        list(ex.map(one, which))


def one(sid):
    if True:
        prop, m = sid.split("-")
        src = f"/tmp/seed/out-{prop}/{m}"
        dst = f"/verif/seeded/{sid}"
        if not os.path.exists(src + "/patch.diff"):
            print(sid, "missing"); return
        wt = f"/tmp/seedconfirm-{sid}"
        subprocess.run(f"git -C /repo worktree remove --force {wt}", shell=True, capture_output=True)
        subprocess.run(f"git -C /repo worktree add -q --detach {wt} HEAD", shell=True, check=True)
        meta = {"seed": sid, "property": prop, "base_commit": subprocess.run("git -C /repo rev-parse --short HEAD", shell=True, capture_output=True, text=True).stdout.strip(), "ran": []}
        try:
            rc, out = sh(f"git apply {src}/patch.diff", wt)
            meta["patch_applies"] = rc == 0
            if rc != 0:
                meta["note"] = "patch does not apply to the current /repo HEAD: " + out[-300:]
            else:
                rc, out = sh("go build ./...", wt); meta["builds"] = rc == 0
                meta["ran"].append("go build ./... -> rc %d" % rc)
                rc, out = sh("go test -vet=off -count=1 -timeout 25m ./...", wt)
                meta["existing_suite_passes_with_change"] = rc == 0
                meta["ran"].append("go test -vet=off -count=1 -timeout 25m ./... (change applied) -> rc %d" % rc)
                if rc != 0: meta["suite_tail"] = out[-600:]
                demo, cmd = SEEDS[sid]
                shutil.copy(src + "/demo_test.go", os.path.join(wt, demo))
                rc, out = sh(cmd, wt); meta["demo_fails_with_change"] = rc != 0
                meta["ran"].append(cmd + " (change applied) -> rc %d" % rc)
                meta["demo_output_with_change"] = out[-500:]
                sh("git checkout -- .", wt)
                rc, out = sh(cmd, wt); meta["demo_passes_without_change"] = rc == 0
                meta["ran"].append(cmd + " (change reverted) -> rc %d" % rc)
                if rc != 0: meta["demo_output_without_change"] = out[-500:]
        finally:
            subprocess.run(f"git -C /repo worktree remove --force {wt}", shell=True, capture_output=True)
        meta["confirmed"] = all(meta.get(k) for k in ("patch_applies", "builds", "existing_suite_passes_with_change", "demo_fails_with_change", "demo_passes_without_change"))
        os.makedirs(dst, exist_ok=True)
        for f in ("patch.diff", "demo_test.go", "README.md"):
            if os.path.exists(f"{src}/{f}"): shutil.copy(f"{src}/{f}", f"{dst}/{f}")
        old = {}
        if os.path.exists(dst + "/meta.json"):
            old = json.load(open(dst + "/meta.json"))
        old.update(meta)
        json.dump(old, open(dst + "/meta.json", "w"), indent=1)
        print(sid, "confirmed" if meta["confirmed"] else "NOT-CONFIRMED", {k: meta.get(k) for k in ("patch_applies","builds","existing_suite_passes_with_change","demo_fails_with_change","demo_passes_without_change")}, flush=True)
main()
