#!/usr/bin/env python3
"""Fill meta.json 'what' of every seed from the first heading of its README.md."""
import json, os, re, glob
R = os.path.dirname(os.path.dirname(os.path.abspath(__file__)))
for mp in sorted(glob.glob(os.path.join(R, "seeded", "*", "meta.json"))):
    m = json.load(open(mp))
    rd = os.path.join(os.path.dirname(mp), "README.md")
    if os.path.exists(rd):
        first = next((l.strip() for l in open(rd) if l.strip()), "")
        first = first.lstrip("# ").strip()
        first = re.sub(r"^C\d\d\s*(/|,)?\s*(mutation|Mutation|m)?\s*m?\d\s*(-|—|:|–)\s*", "", first)
        m.setdefault("seed", os.path.basename(os.path.dirname(mp)))
        m["what"] = first
        json.dump(m, open(mp, "w"), indent=1)
        print(m["seed"], "|", first[:100])
