//go:build verif

package round

import (
	"github.com/taurusgroup/multi-party-sig/internal/vsym"
	"github.com/taurusgroup/multi-party-sig/pkg/hash"
	"github.com/taurusgroup/multi-party-sig/pkg/math/curve"
	"github.com/taurusgroup/multi-party-sig/pkg/party"
)

type symSession struct {
	sid      []byte
	sidNil   bool
	proto    string
	hasGroup bool
	ids      []party.ID
	t        int
	aux      []byte
	hasAux   bool
}

const (
	dimSID = 1 << iota
	dimProto
	dimGroup
	dimIDs
	dimT
	dimAux
)

// symParams draws the dimensions selected by mask; the others are copied from base.
func symParams(p string, mask int, base *symSession) symSession {
	var s symSession
	if base != nil {
		s = *base
	}
	maxIDs := vsym.Param("ids", 2)
	idLen := vsym.Param("idlen", 2)
	sidLen := vsym.Param("sid", 2)
	protoLen := vsym.Param("proto", 2)
	if p == "s" { // shared (non-varied) dimensions: arbitrary content, small shapes
		maxIDs, idLen, sidLen, protoLen = vsym.Param("bids", 1), vsym.Param("bidlen", 1), vsym.Param("bsid", 1), vsym.Param("bproto", 1)
	}
	if mask&dimSID != 0 {
		s.sidNil = vsym.Choose(p+".sidnil", 2) == 0
		s.sid = nil
		if !s.sidNil {
			s.sid = vsym.Bytes(p+".sid", 0, sidLen)
		}
	}
	if mask&dimProto != 0 {
		s.proto = vsym.String(p+".proto", 0, protoLen)
	}
	if mask&dimGroup != 0 {
		s.hasGroup = vsym.Choose(p+".group", 2) == 1
	}
	if mask&dimIDs != 0 {
		n := vsym.Choose(p+".n", maxIDs) + 1
		s.ids = make([]party.ID, n)
		for i := range s.ids {
			s.ids[i] = party.ID(vsym.String(p+".id", 1, idLen))
		}
		for i := range s.ids {
			for j := i + 1; j < len(s.ids); j++ {
				vsym.Assume(vsym.Not(vsym.StrEq(string(s.ids[i]), string(s.ids[j]))))
			}
		}
	}
	if mask&dimT != 0 {
		s.t = vsym.Int(p+".t", 0, 5)
		if mask&dimIDs != 0 {
			vsym.Assume(s.t < len(s.ids))
		} else {
			vsym.Assume(s.t == 0) // the shared party list may have a single member
		}
	}
	if mask&dimAux != 0 {
		s.hasAux = vsym.Choose(p+".hasaux", 2) == 1
		s.aux = nil
		if s.hasAux {
			s.aux = vsym.Bytes(p+".aux", 0, 1)
		}
	}
	return s
}

func (s symSession) start() (*Helper, error) {
	var aux []hash.WriterToWithDomain
	if s.hasAux {
		aux = append(aux, &hash.BytesWithDomain{TheDomain: "Aux", Bytes: s.aux})
	}
	info := Info{ProtocolID: s.proto, FinalRoundNumber: 3, SelfID: s.ids[0], PartyIDs: s.ids, Threshold: s.t}
	if s.hasGroup {
		info.Group = curve.Secp256k1{}
	}
	return NewSession(info, s.sid, nil, aux...)
}

func mkSymSession(p string) (symSession, *Helper, error) {
	s := symParams(p, dimSID|dimProto|dimGroup|dimIDs|dimT|dimAux, nil)
	h, err := s.start()
	return s, h, err
}

// H_SSIDInjective: two sessions with the same SSID have the same parameters
// (session id incl. nil-ness, protocol id, group, sorted party set, threshold, auxiliary data).
// Parameter "vary" selects which dimensions are drawn independently for the two sessions (bit mask); the
// remaining dimensions are arbitrary but shared.
func H_SSIDInjective() {
	all := dimSID | dimProto | dimGroup | dimIDs | dimT | dimAux
	vary := vsym.Param("vary", all)
	base := symParams("s", all&^vary, &symSession{ids: []party.ID{"x"}})
	a := symParams("a", vary, &base)
	b := symParams("b", vary, &base)
	ha, ea := a.start()
	vsym.Assume(ea == nil)
	hb, eb := b.start()
	vsym.Assume(eb == nil)
	same := vsym.And(a.sidNil == b.sidNil, vsym.BytesEq(a.sid, b.sid))
	same = vsym.And(same, vsym.StrEq(a.proto, b.proto))
	same = vsym.And(same, a.hasGroup == b.hasGroup)
	same = vsym.And(same, a.t == b.t)
	same = vsym.And(same, vsym.And(a.hasAux == b.hasAux, vsym.BytesEq(a.aux, b.aux)))
	pa, pb := ha.PartyIDs(), hb.PartyIDs()
	if len(pa) != len(pb) {
		same = false
	} else {
		for i := range pa {
			same = vsym.And(same, vsym.StrEq(string(pa[i]), string(pb[i])))
		}
	}
	vsym.Assert(vsym.Implies(vsym.BytesEq(ha.SSID(), hb.SSID()), same), "equal SSID implies equal session parameters")
	vsym.Reach("ssid-compared")
}

// H_SessionValidity: NewSession refuses invalid parameters (threshold range, duplicate ids, self missing) and
// accepts valid ones; never panics.
func H_SessionValidity() {
	maxIDs := vsym.Param("ids", 3)
	n := vsym.Choose("n", maxIDs+1)
	ids := make([]party.ID, n)
	for i := range ids {
		ids[i] = party.ID(vsym.String("id", 0, 1))
	}
	self := party.ID(vsym.String("self", 0, 1))
	t := vsym.Int("t", -3, 6)
	_, err := NewSession(Info{ProtocolID: "p", FinalRoundNumber: 2, SelfID: self, PartyIDs: ids, Threshold: t, Group: curve.Secp256k1{}}, nil, nil)
	dup := false
	selfIn := false
	for i := range ids {
		if len(ids[i]) == 0 {
			dup = true // the empty identifier is refused like a duplicate
		}
		selfIn = vsym.Or(selfIn, vsym.StrEq(string(ids[i]), string(self)))
		for j := i + 1; j < len(ids); j++ {
			dup = vsym.Or(dup, vsym.StrEq(string(ids[i]), string(ids[j])))
		}
	}
	bad := vsym.Or(vsym.Or(dup, vsym.Not(selfIn)), vsym.Or(t < 0, t > n-1))
	vsym.Assert(vsym.Implies(bad, err != nil), "invalid session parameters are refused")
	vsym.Assert(vsym.Implies(vsym.Not(bad), err == nil), "valid session parameters are accepted")
	vsym.Reach("validity-compared")
}

// H_PerPartyContext: the per-party hash contexts of different parties (and of different sessions) differ.
func H_PerPartyContext() {
	a, ha, ea := mkSymSession("a")
	vsym.Assume(ea == nil)
	_ = a
	i := party.ID(vsym.String("i", 1, 2))
	j := party.ID(vsym.String("j", 1, 2))
	di := ha.HashForID(i).Sum()
	dj := ha.HashForID(j).Sum()
	vsym.Assert(vsym.Implies(vsym.BytesEq(di, dj), vsym.StrEq(string(i), string(j))), "HashForID separates parties")
	d0 := ha.Hash().Sum()
	vsym.Assert(vsym.Not(vsym.BytesEq(di, d0)), "HashForID(i) differs from the bare session hash")
	// UpdateHashState changes every later context
	before := ha.HashForID(i).Sum()
	ha.UpdateHashState(&hash.BytesWithDomain{TheDomain: "upd", Bytes: vsym.Bytes("u", 0, 1)})
	after := ha.HashForID(i).Sum()
	vsym.Assert(vsym.Not(vsym.BytesEq(before, after)), "UpdateHashState changes the context")
	vsym.Reach("ctx-compared")
}
