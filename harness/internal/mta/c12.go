//go:build verif

package mta

import (
	"github.com/cronokirby/saferith"
	"github.com/taurusgroup/multi-party-sig/internal/vsym"
	"github.com/taurusgroup/multi-party-sig/pkg/math/curve"
	"github.com/taurusgroup/multi-party-sig/pkg/zk"
)

// H_C12_MtA: the MtA conversion (real newMta) over an ideal additively homomorphic encryption with the real 2048-bit
// moduli: for ALL scalars a, b in [0, q) and every mask beta in the real sampling range, the receiver's
// alpha = Dec(D) satisfies alpha + beta = a*b over the integers (no wrap-around modulo N).
func H_C12_MtA() {
	q := curve.Secp256k1{}.Order().Nat()
	a := vsym.SymInt("a", 256)
	b := vsym.SymInt("b", 256)
	qI := new(saferith.Int).SetNat(q)
	vsym.Assume(a.IsNegative() == 0 && b.IsNegative() == 0)
	_, _, ltA := a.Abs().Cmp(qI.Abs())
	_, _, ltB := b.Abs().Cmp(qI.Abs())
	vsym.Assume(ltA == 1 && ltB == 1)
	sender, receiver := zk.ProverPaillierSecret, zk.VerifierPaillierSecret
	Bj, _ := receiver.Enc(b)
	D, F, _, _, betaNeg := newMta(a, Bj, sender, receiver.PublicKey)
	alpha, err := receiver.Dec(D)
	vsym.Assert(err == nil, "receiver decrypts")
	beta := new(saferith.Int).SetInt(betaNeg).Neg(1)
	sum := new(saferith.Int).Add(alpha, beta, -1)
	prod := new(saferith.Int).Mul(a, b, -1)
	vsym.Assert(sum.Eq(prod) == 1, "alpha + beta = a*b over the integers")
	// the sender's own encryption F carries -beta
	fdec, err2 := sender.Dec(F)
	vsym.Assert(err2 == nil && fdec.Eq(betaNeg) == 1, "F decrypts to -beta under the sender's key")
	vsym.Reach("mta-checked")
}
