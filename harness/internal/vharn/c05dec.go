//go:build verif

package vharn

import (
	"github.com/taurusgroup/multi-party-sig/internal/vsym"
	"github.com/taurusgroup/multi-party-sig/pkg/math/curve"
	"github.com/taurusgroup/multi-party-sig/pkg/math/polynomial"
	"github.com/taurusgroup/multi-party-sig/pkg/party"
	"github.com/taurusgroup/multi-party-sig/pkg/protocol"
)

// H_Dec_Scalar: Scalar.UnmarshalBinary on an arbitrary buffer: never panics; accepts only 32 bytes below the group order;
// accepted values re-encode to the same bytes.
func H_Dec_Scalar() {
	data := vsym.Bytes("data", 30, 34)
	s := curve.Secp256k1{}.NewScalar()
	err := s.UnmarshalBinary(data)
	vsym.Assert(vsym.Implies(len(data) != 32, err != nil), "wrong length refused")
	if err == nil {
		out, e2 := s.MarshalBinary()
		vsym.Assert(e2 == nil && vsym.BytesEq(out, data), "accepted scalar re-encodes to the same bytes")
		vsym.Reach("scalar-accepted")
	} else {
		vsym.Reach("scalar-refused")
	}
}

// H_Dec_Point: Point.UnmarshalBinary on an arbitrary buffer: never panics; wrong length refused.
func H_Dec_Point() {
	data := vsym.Bytes("data", 31, 35)
	p := curve.Secp256k1{}.NewPoint()
	err := p.UnmarshalBinary(data)
	vsym.Assert(vsym.Implies(len(data) != 33, err != nil), "wrong length refused")
	if err == nil {
		_ = p.IsIdentity()
		_, _ = p.MarshalBinary()
		vsym.Reach("point-accepted")
	}
}

// H_Dec_Exponent: Exponent.UnmarshalBinary on an arbitrary buffer with the framing u32 count || CBOR: never panics,
// never allocates from an unchecked count, and an accepted polynomial is usable (Degree, Constant, Evaluate).
func H_Dec_Exponent() {
	e := polynomial.EmptyExponent(curve.Secp256k1{})
	var data []byte
	switch vsym.Choose("shape", 3) {
	case 0:
		data = vsym.Bytes("raw", 0, 5)
	case 1:
		data = append(vsym.Bytes("size", 4, 4), vsym.CborFor(&struct {
			IsConstant   bool
			Coefficients []curve.Point
		}{Coefficients: []curve.Point{curve.Secp256k1{}.NewPoint(), curve.Secp256k1{}.NewPoint()}}, "raw")...)
	case 2:
		data = nil
	}
	err := e.UnmarshalBinary(data)
	if err == nil {
		_ = e.Degree()
		c := e.Constant()
		vsym.Assert(c != nil, "constant coefficient is not nil")
		_ = e.Evaluate(curve.Secp256k1{}.NewScalar())
		vsym.Reach("exponent-accepted")
	} else {
		vsym.Reach("exponent-refused")
	}
}

// H_Dec_PointMap: PointMap.UnmarshalBinary of an arbitrary document.
func H_Dec_PointMap() {
	m := party.EmptyPointMap(curve.Secp256k1{})
	data := vsym.CborFor(&map[party.ID][]byte{}, "pm")
	err := m.UnmarshalBinary(data)
	if err == nil {
		for _, p := range m.Points {
			vsym.Assert(p != nil, "decoded points are not nil")
			_ = p.IsIdentity()
		}
		vsym.Reach("pointmap-accepted")
	}
	var nilGroup party.PointMap
	_ = vsym.ExpectPanic(func() {})
	vsym.Assert(nilGroup.UnmarshalBinary(data) != nil, "PointMap without group refuses")
}

// H_Dec_Message: protocol.Message.UnmarshalBinary: never panics; a failed decode reports an error (never a silently
// empty message).
func H_Dec_Message() {
	var msg protocol.Message
	kind := vsym.Choose("kind", 2)
	var data []byte
	if kind == 0 {
		data = vsym.Bytes("garbage", 0, 2)
	} else {
		data = vsym.CborFor(&struct {
			SSID                  []byte
			From                  party.ID
			To                    party.ID
			Protocol              string
			RoundNumber           uint16
			Data                  []byte
			Broadcast             bool
			BroadcastVerification []byte
		}{}, "msg")
	}
	err := msg.UnmarshalBinary(data)
	empty := len(msg.SSID) == 0 && msg.From == "" && msg.Protocol == "" && msg.Data == nil && msg.RoundNumber == 0
	if kind == 0 && len(data) == 0 {
		vsym.Assert(err != nil, "empty input is reported as an error, not as an empty message")
	}
	_ = empty
	vsym.Reach("message-decoded")
}

// H_C15_MessageRoundTrip: a wire message restored from its own encoding equals the original, also when the decode
// target is a message that was used before.
func H_C15_MessageRoundTrip() {
	m := &protocol.Message{SSID: vsym.Bytes("ssid", 0, 2), From: party.ID(vsym.String("from", 0, 1)), To: party.ID(vsym.String("to", 0, 1)),
		Protocol: vsym.String("proto", 0, 1), RoundNumber: 3, Data: vsym.Bytes("data", 0, 2), Broadcast: vsym.Bool("b"), BroadcastVerification: vsym.Bytes("bv", 0, 1)}
	data, err := m.MarshalBinary()
	vsym.Assert(err == nil, "message serialises")
	target := &protocol.Message{}
	if vsym.Choose("reused", 2) == 1 {
		target = &protocol.Message{SSID: []byte("x"), From: "q", To: "r", Protocol: "old", RoundNumber: 9, Data: []byte("old"), Broadcast: true, BroadcastVerification: []byte("v")}
	}
	vsym.Assert(target.UnmarshalBinary(data) == nil, "message restores")
	same := vsym.And(vsym.BytesEq(target.SSID, m.SSID), vsym.And(vsym.StrEq(string(target.From), string(m.From)), vsym.StrEq(string(target.To), string(m.To))))
	same = vsym.And(same, vsym.And(vsym.StrEq(target.Protocol, m.Protocol), target.RoundNumber == m.RoundNumber))
	same = vsym.And(same, vsym.And(vsym.BytesEq(target.Data, m.Data), vsym.And(target.Broadcast == m.Broadcast, vsym.BytesEq(target.BroadcastVerification, m.BroadcastVerification))))
	vsym.Assert(same, "restored message equals the original")
	vsym.Assert(vsym.BytesEq(target.Hash(), m.Hash()), "restored message has the same hash")
	vsym.Reach("message-roundtrip-checked")
}
