//go:build verif

// Package vharn holds cross-package harnesses (injected by overlay; not part of the repository).
package vharn

import (
	"github.com/taurusgroup/multi-party-sig/internal/round"
	"github.com/taurusgroup/multi-party-sig/internal/types"
	"github.com/taurusgroup/multi-party-sig/internal/vsym"
	"github.com/taurusgroup/multi-party-sig/pkg/hash"
	"github.com/taurusgroup/multi-party-sig/pkg/party"
)

func digestOf(items ...interface{}) []byte {
	h := hash.New()
	vsym.Assume(h.WriteAny(items...) == nil)
	return h.Sum()
}

func symIDs(name string, minN, maxN, maxLen int) party.IDSlice {
	n := vsym.Choose(name+".n", maxN-minN+1) + minN
	ids := make(party.IDSlice, n)
	for i := range ids {
		ids[i] = party.ID(vsym.String(name+".id", 1, maxLen))
	}
	return ids
}

func idsEq(a, b party.IDSlice) bool {
	if len(a) != len(b) {
		return false
	}
	eq := true
	for i := range a {
		eq = vsym.And(eq, vsym.StrEq(string(a[i]), string(b[i])))
	}
	return eq
}

// H_Enc_IDSlice: the hash encoding of a party list is injective in the list.
func H_Enc_IDSlice() {
	n := vsym.Param("ids", 2)
	l := vsym.Param("idlen", 2)
	a := symIDs("a", 1, n, l)
	b := symIDs("b", 1, n, l)
	vsym.Assert(vsym.Implies(vsym.BytesEq(digestOf(a), digestOf(b)), idsEq(a, b)), "IDSlice encoding injective")
	vsym.Reach("idslice-compared")
}

// H_Enc_ID: single identifiers.
func H_Enc_ID() {
	l := vsym.Param("idlen", 3)
	a := party.ID(vsym.String("a", 1, l))
	b := party.ID(vsym.String("b", 1, l))
	vsym.Assert(vsym.Implies(vsym.BytesEq(digestOf(a), digestOf(b)), vsym.StrEq(string(a), string(b))), "ID encoding injective")
	vsym.Reach("id-compared")
}

// H_Enc_Scalars: fixed-width integer wrappers.
func H_Enc_Scalars() {
	n1, n2 := round.Number(vsym.Uint16("n1")), round.Number(vsym.Uint16("n2"))
	vsym.Assert(vsym.Implies(vsym.BytesEq(digestOf(n1), digestOf(n2)), n1 == n2), "round.Number encoding injective")
	t1, t2 := types.ThresholdWrapper(vsym.Uint32("t1")), types.ThresholdWrapper(vsym.Uint32("t2"))
	vsym.Assert(vsym.Implies(vsym.BytesEq(digestOf(t1), digestOf(t2)), t1 == t2), "ThresholdWrapper encoding injective")
	// a threshold and a round number with the same numeric value never collide (domain separation)
	vsym.Assert(vsym.Not(vsym.BytesEq(digestOf(t1), digestOf(n1))), "Threshold vs Round Number separated")
	vsym.Reach("scalars-compared")
}

// H_Enc_ByteTypes: byte-string wrappers: injective per type, and separated across types for equal bytes.
func H_Enc_ByteTypes() {
	l := vsym.Param("data", 3)
	x := vsym.Bytes("x", 0, l)
	y := vsym.Bytes("y", 0, l)
	eq := vsym.BytesEq(x, y)
	vsym.Assert(vsym.Implies(vsym.BytesEq(digestOf(types.RID(x)), digestOf(types.RID(y))), eq), "RID injective")
	vsym.Assert(vsym.Implies(vsym.BytesEq(digestOf(types.SigningMessage(x)), digestOf(types.SigningMessage(y))), eq), "SigningMessage injective")
	vsym.Assert(vsym.Implies(vsym.BytesEq(digestOf(hash.Commitment(x)), digestOf(hash.Commitment(y))), eq), "Commitment injective")
	vsym.Assert(vsym.Implies(vsym.BytesEq(digestOf(hash.Decommitment(x)), digestOf(hash.Decommitment(y))), eq), "Decommitment injective")
	vsym.Assert(vsym.Implies(vsym.BytesEq(digestOf(x), digestOf(y)), eq), "[]byte injective")
	// swapped types with equal bytes
	all := [][]byte{
		digestOf(x), digestOf(types.RID(x)), digestOf(types.SigningMessage(x)), digestOf(hash.Commitment(x)),
		digestOf(hash.Decommitment(x)),
	}
	if len(x) > 0 {
		all = append(all, digestOf(party.ID(x)), digestOf(party.IDSlice{party.ID(x)}))
	}
	for i := range all {
		for j := i + 1; j < len(all); j++ {
			vsym.Assert(vsym.Not(vsym.BytesEq(all[i], all[j])), "equal bytes under different types give different digests")
		}
	}
	// nil vs empty message are distinguished on purpose ("Empty Message" domain)
	vsym.Assert(vsym.Not(vsym.BytesEq(digestOf(types.SigningMessage(nil)), digestOf(types.SigningMessage([]byte{})))), "nil vs empty message")
	vsym.Reach("bytetypes-compared")
}

// H_DomainsDistinct: Domain() strings of the byte-level implementers are pairwise distinct.
func H_DomainsDistinct() {
	doms := []string{
		party.IDSlice{}.Domain(), party.ID("").Domain(), round.Number(0).Domain(), types.ThresholdWrapper(0).Domain(),
		types.RID{}.Domain(), types.SigningMessage{}.Domain(), types.SigningMessage(nil).Domain(),
		hash.Commitment{}.Domain(), hash.Decommitment{}.Domain(), "[]byte", "big.Int",
		"Session ID", "Protocol ID", "Group Name", "Message",
	}
	for i := range doms {
		for j := i + 1; j < len(doms); j++ {
			vsym.Assert(doms[i] != doms[j], "domains pairwise distinct")
		}
	}
	vsym.Reach("domains-compared")
}
