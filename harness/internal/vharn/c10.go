//go:build verif

package vharn

import (
	"math/big"

	"github.com/cronokirby/saferith"
	zkaffp "github.com/taurusgroup/multi-party-sig/pkg/zk/affp"
	zkdec "github.com/taurusgroup/multi-party-sig/pkg/zk/dec"
	zkelog "github.com/taurusgroup/multi-party-sig/pkg/zk/elog"
	zkencelg "github.com/taurusgroup/multi-party-sig/pkg/zk/encelg"
	zkfac "github.com/taurusgroup/multi-party-sig/pkg/zk/fac"
	zklog "github.com/taurusgroup/multi-party-sig/pkg/zk/log"
	zkmod "github.com/taurusgroup/multi-party-sig/pkg/zk/mod"
	zkmul "github.com/taurusgroup/multi-party-sig/pkg/zk/mul"
	zkmulstar "github.com/taurusgroup/multi-party-sig/pkg/zk/mulstar"
	zknth "github.com/taurusgroup/multi-party-sig/pkg/zk/nth"
	zkprm "github.com/taurusgroup/multi-party-sig/pkg/zk/prm"
	"github.com/taurusgroup/multi-party-sig/internal/vsym"
	"github.com/taurusgroup/multi-party-sig/pkg/hash"
	"github.com/taurusgroup/multi-party-sig/pkg/math/curve"
	"github.com/taurusgroup/multi-party-sig/pkg/paillier"
	"github.com/taurusgroup/multi-party-sig/pkg/zk"
	zkaffg "github.com/taurusgroup/multi-party-sig/pkg/zk/affg"
	zkenc "github.com/taurusgroup/multi-party-sig/pkg/zk/enc"
	zklogstar "github.com/taurusgroup/multi-party-sig/pkg/zk/logstar"
)

func below(z *saferith.Int, bits uint) bool {
	_, _, lt := z.Abs().Cmp(new(saferith.Nat).Lsh(new(saferith.Nat).SetUint64(1), bits, -1))
	return lt == 1
}

// H_C10_EncVerifyRange: zkenc.Verify on an ARBITRARY proof object (every pointer nil or not, every number arbitrary)
// for a fixed well-formed statement: it never panics, and whenever it accepts, the response lies in the proven range.
func H_C10_EncVerifyRange() {
	group := curve.Secp256k1{}
	pk := zk.ProverPaillierPublic
	K := pk.EncWithNonce(vsym.SymInt("k", 256), vsym.SymNat("rho", 2048))
	public := zkenc.Public{K: K, Prover: pk, Aux: zk.Pedersen}
	var proof *zkenc.Proof
	vsym.Havoc(&proof, "proof")
	var ok bool
	panicked := vsym.ExpectPanic(func() { ok = proof.Verify(group, hash.New(), public) })
	vsym.Assert(!panicked, "zkenc.Verify never panics on an arbitrary proof")
	if !panicked && ok {
		vsym.Assert(below(proof.Z1, 768), "accepted zkenc proof: |z1| < 2^(l+eps)")
		vsym.Reach("enc-accepting-path")
	}
	vsym.Reach("enc-range-checked")
}

func H_C10_LogstarVerifyRange() {
	group := curve.Secp256k1{}
	pk := zk.ProverPaillierPublic
	C := pk.EncWithNonce(vsym.SymInt("x", 256), vsym.SymNat("rho", 2048))
	public := zklogstar.Public{C: C, X: group.NewBasePoint(), Prover: pk, Aux: zk.Pedersen}
	var proof *zklogstar.Proof
	vsym.Havoc(&proof, "proof")
	var ok bool
	panicked := vsym.ExpectPanic(func() { ok = proof.Verify(hash.New(), public) })
	vsym.Assert(!panicked, "zklogstar.Verify never panics on an arbitrary proof")
	if !panicked && ok {
		vsym.Assert(below(proof.Z1, 768), "accepted zklogstar proof: |z1| < 2^(l+eps)")
		vsym.Reach("logstar-accepting-path")
	}
	vsym.Reach("logstar-range-checked")
}

func H_C10_AffgVerifyRange() {
	group := curve.Secp256k1{}
	prover, verifier := zk.ProverPaillierPublic, zk.VerifierPaillierPublic
	Kv := verifier.EncWithNonce(vsym.SymInt("k", 256), vsym.SymNat("rho1", 2048))
	Dv := verifier.EncWithNonce(vsym.SymInt("d", 256), vsym.SymNat("rho2", 2048))
	Fp := prover.EncWithNonce(vsym.SymInt("f", 256), vsym.SymNat("rho3", 2048))
	public := zkaffg.Public{Kv: Kv, Dv: Dv, Fp: Fp, Xp: group.NewBasePoint(), Prover: prover, Verifier: verifier, Aux: zk.Pedersen}
	var proof *zkaffg.Proof
	vsym.Havoc(&proof, "proof")
	var ok bool
	panicked := vsym.ExpectPanic(func() { ok = proof.Verify(hash.New(), public) })
	vsym.Assert(!panicked, "zkaffg.Verify never panics on an arbitrary proof")
	if !panicked && ok {
		vsym.Assert(below(proof.Z1, 768), "accepted zkaffg proof: |z1| < 2^(l+eps)")
		vsym.Assert(below(proof.Z2, 1792), "accepted zkaffg proof: |z2| < 2^(l'+eps)")
		vsym.Reach("affg-accepting-path")
	}
	vsym.Reach("affg-range-checked")
}

// H_C10_FacVerifyRange: zkfac.Verify on an arbitrary proof with all fields present: whenever it accepts, BOTH responses lie
// in [-2^(1+l+eps)*sqrt(N), 2^(1+l+eps)*sqrt(N)] (bit length <= 1+768+1024).
func H_C10_FacVerifyRange() {
	public := zkfac.Public{N: zk.ProverPaillierPublic.N(), Aux: zk.Pedersen}
	var proof *zkfac.Proof
	vsym.Havoc(&proof, "proof")
	var ok bool
	panicked := vsym.ExpectPanic(func() { ok = proof.Verify(public, hash.New()) })
	vsym.Assert(!panicked, "zkfac.Verify never panics on an arbitrary proof")
	if !panicked && ok {
		vsym.Assert(below(proof.Z1, 1793), "accepted zkfac proof: |z1| < 2^(1+l+eps+1024)")
		vsym.Assert(below(proof.Z2, 1793), "accepted zkfac proof: |z2| < 2^(1+l+eps+1024)")
		vsym.Reach("fac-accepting-path")
	}
	vsym.Reach("fac-range-checked")
}

func unitBelow(x *saferith.Nat, n *saferith.Modulus) bool {
	if x == nil {
		return false
	}
	_, _, lt := x.CmpMod(n)
	return lt == 1 && x.EqZero() != 1
}

// H_C10_AffpVerifyRange: zkaffp.Verify on an arbitrary proof never panics; acceptance implies the interval responses are
// in range and the residue responses are non-zero residues of their moduli.
func H_C10_AffpVerifyRange() {
	group := curve.Secp256k1{}
	prover, verifier := zk.ProverPaillierPublic, zk.VerifierPaillierPublic
	Kv := verifier.EncWithNonce(vsym.SymInt("k", 256), vsym.SymNat("rho1", 2048))
	Dv := verifier.EncWithNonce(vsym.SymInt("d", 256), vsym.SymNat("rho2", 2048))
	Fp := prover.EncWithNonce(vsym.SymInt("f", 256), vsym.SymNat("rho3", 2048))
	Xp := prover.EncWithNonce(vsym.SymInt("x", 256), vsym.SymNat("rho4", 2048))
	public := zkaffp.Public{Kv: Kv, Dv: Dv, Fp: Fp, Xp: Xp, Prover: prover, Verifier: verifier, Aux: zk.Pedersen}
	var proof *zkaffp.Proof
	vsym.Havoc(&proof, "proof")
	var ok bool
	panicked := vsym.ExpectPanic(func() { ok = proof.Verify(group, hash.New(), public) })
	vsym.Assert(!panicked, "zkaffp.Verify never panics on an arbitrary proof")
	if !panicked && ok {
		vsym.Assert(below(proof.Z1, 768), "accepted zkaffp proof: |z1| < 2^(l+eps)")
		vsym.Assert(below(proof.Z2, 1792), "accepted zkaffp proof: |z2| < 2^(l'+eps)")
		vsym.Assert(unitBelow(proof.W, verifier.N()) && unitBelow(proof.Wx, prover.N()) && unitBelow(proof.Wy, prover.N()), "accepted zkaffp proof: w, wx, wy are non-zero residues")
		vsym.Reach("affp-accepting-path")
	}
	vsym.Reach("affp-range-checked")
}

// H_C10_EncelgVerifyRange: the same for zkencelg.
func H_C10_EncelgVerifyRange() {
	group := curve.Secp256k1{}
	pk := zk.ProverPaillierPublic
	C := pk.EncWithNonce(vsym.SymInt("x", 256), vsym.SymNat("rho", 2048))
	G := group.NewBasePoint()
	public := zkencelg.Public{C: C, A: G, B: G.Add(G), X: G.Add(G).Add(G), Prover: pk, Aux: zk.Pedersen}
	var proof *zkencelg.Proof
	vsym.Havoc(&proof, "proof")
	var ok bool
	panicked := vsym.ExpectPanic(func() { ok = proof.Verify(hash.New(), public) })
	vsym.Assert(!panicked, "zkencelg.Verify never panics on an arbitrary proof")
	if !panicked && ok {
		vsym.Assert(below(proof.Z1, 768), "accepted zkencelg proof: |z1| < 2^(l+eps)")
		vsym.Assert(unitBelow(proof.Z2, pk.N()), "accepted zkencelg proof: z2 is a non-zero residue")
		vsym.Reach("encelg-accepting-path")
	}
	vsym.Reach("encelg-range-checked")
}

// H_C10_MulstarVerifyRange: the same for zkmulstar.
func H_C10_MulstarVerifyRange() {
	group := curve.Secp256k1{}
	verifier := zk.VerifierPaillierPublic
	C := verifier.EncWithNonce(vsym.SymInt("c", 256), vsym.SymNat("rho1", 2048))
	D := verifier.EncWithNonce(vsym.SymInt("d", 256), vsym.SymNat("rho2", 2048))
	public := zkmulstar.Public{C: C, D: D, X: group.NewBasePoint(), Verifier: verifier, Aux: zk.Pedersen}
	var proof *zkmulstar.Proof
	vsym.Havoc(&proof, "proof")
	var ok bool
	panicked := vsym.ExpectPanic(func() { ok = proof.Verify(group, hash.New(), public) })
	vsym.Assert(!panicked, "zkmulstar.Verify never panics on an arbitrary proof")
	if !panicked && ok {
		vsym.Assert(below(proof.Z1, 768), "accepted zkmulstar proof: |z1| < 2^(l+eps)")
		vsym.Assert(unitBelow(proof.W, verifier.N()), "accepted zkmulstar proof: w is a non-zero residue")
		vsym.Reach("mulstar-accepting-path")
	}
	vsym.Reach("mulstar-range-checked")
}

// H_C10_DecMulNthVerify: zkdec, zkmul and zknth (no interval responses): Verify on an arbitrary proof never panics and
// acceptance implies the residue responses are non-zero residues of their moduli.
func H_C10_DecMulNthVerify() {
	group := curve.Secp256k1{}
	pk := zk.ProverPaillierPublic
	ct := func(name string) *paillier.Ciphertext { return pk.EncWithNonce(vsym.SymInt(name, 256), vsym.SymNat(name+"rho", 2048)) }
	switch vsym.Choose("proof", 3) {
	case 0:
		x := group.NewScalar().SetNat(new(saferith.Nat).SetUint64(7))
		var proof *zkdec.Proof
		vsym.Havoc(&proof, "proof")
		var ok bool
		panicked := vsym.ExpectPanic(func() { ok = proof.Verify(hash.New(), zkdec.Public{C: ct("c"), X: x, Prover: pk, Aux: zk.Pedersen}) })
		vsym.Assert(!panicked, "zkdec.Verify never panics on an arbitrary proof")
		if !panicked && ok {
			vsym.Assert(unitBelow(proof.W, pk.N()), "accepted zkdec proof: w is a non-zero residue")
			vsym.Reach("dec-accepting-path")
		}
	case 1:
		var proof *zkmul.Proof
		vsym.Havoc(&proof, "proof")
		var ok bool
		panicked := vsym.ExpectPanic(func() { ok = proof.Verify(group, hash.New(), zkmul.Public{X: ct("x"), Y: ct("y"), C: ct("c"), Prover: pk}) })
		vsym.Assert(!panicked, "zkmul.Verify never panics on an arbitrary proof")
		if !panicked && ok {
			vsym.Assert(unitBelow(proof.U, pk.N()) && unitBelow(proof.V, pk.N()), "accepted zkmul proof: u, v are non-zero residues")
			vsym.Reach("mul-accepting-path")
		}
	case 2:
		var proof *zknth.Proof
		vsym.Havoc(&proof, "proof")
		var ok bool
		panicked := vsym.ExpectPanic(func() { ok = proof.Verify(hash.New(), zknth.Public{N: pk, R: vsym.SymNat("r", 4096)}) })
		vsym.Assert(!panicked, "zknth.Verify never panics on an arbitrary proof")
		if !panicked && ok {
			vsym.Assert(unitBelow(proof.Z, pk.N()), "accepted zknth proof: z is a non-zero residue")
			vsym.Reach("nth-accepting-path")
		}
	}
	vsym.Reach("decmulnth-checked")
}

// H_C10_EmptyShapes: every proof verifier of pkg/zk, given the shapes a CBOR decoder produces from a message that simply
// omits fields (nil proof, proof with no fields, proof with an empty commitment), rejects without panicking.
// Fully concrete per path: violations replay natively.
func H_C10_EmptyShapes() {
	group := curve.Secp256k1{}
	prover, verifier, aux := zk.ProverPaillierPublic, zk.VerifierPaillierPublic, zk.Pedersen
	one := new(saferith.Int).SetUint64(1)
	nonce := new(saferith.Nat).SetUint64(3)
	ctP := prover.EncWithNonce(one, nonce)
	ctV := verifier.EncWithNonce(one, nonce)
	G := group.NewBasePoint()
	x := group.NewScalar().SetNat(new(saferith.Nat).SetUint64(7))
	which := vsym.Choose("proof", 14)
	shape := vsym.Choose("shape", 3)
	var ok bool
	panicked := vsym.ExpectPanic(func() {
		switch which {
		case 0:
			var p *zkenc.Proof
			if shape == 1 {
				p = &zkenc.Proof{}
			} else if shape == 2 {
				p = &zkenc.Proof{Commitment: &zkenc.Commitment{}}
			}
			ok = p.Verify(group, hash.New(), zkenc.Public{K: ctP, Prover: prover, Aux: aux})
		case 1:
			var p *zklogstar.Proof
			if shape == 1 {
				p = &zklogstar.Proof{}
			} else if shape == 2 {
				p = &zklogstar.Proof{Commitment: &zklogstar.Commitment{}}
			}
			ok = p.Verify(hash.New(), zklogstar.Public{C: ctP, X: G, Prover: prover, Aux: aux})
		case 2:
			var p *zkaffg.Proof
			if shape == 1 {
				p = &zkaffg.Proof{}
			} else if shape == 2 {
				p = &zkaffg.Proof{Commitment: &zkaffg.Commitment{}}
			}
			ok = p.Verify(hash.New(), zkaffg.Public{Kv: ctV, Dv: ctV, Fp: ctP, Xp: G, Prover: prover, Verifier: verifier, Aux: aux})
		case 3:
			var p *zkaffp.Proof
			if shape == 1 {
				p = &zkaffp.Proof{}
			} else if shape == 2 {
				p = &zkaffp.Proof{Commitment: &zkaffp.Commitment{}}
			}
			ok = p.Verify(group, hash.New(), zkaffp.Public{Kv: ctV, Dv: ctV, Fp: ctP, Xp: ctP, Prover: prover, Verifier: verifier, Aux: aux})
		case 4:
			var p *zkdec.Proof
			if shape == 1 {
				p = &zkdec.Proof{}
			} else if shape == 2 {
				p = &zkdec.Proof{Commitment: &zkdec.Commitment{}}
			}
			ok = p.Verify(hash.New(), zkdec.Public{C: ctP, X: x, Prover: prover, Aux: aux})
		case 5:
			var p *zkencelg.Proof
			if shape == 1 {
				p = &zkencelg.Proof{}
			} else if shape == 2 {
				p = &zkencelg.Proof{Commitment: &zkencelg.Commitment{}}
			}
			ok = p.Verify(hash.New(), zkencelg.Public{C: ctP, A: G, B: G, X: G, Prover: prover, Aux: aux})
		case 6:
			var p *zkmul.Proof
			if shape == 1 {
				p = &zkmul.Proof{}
			} else if shape == 2 {
				p = &zkmul.Proof{Commitment: &zkmul.Commitment{}}
			}
			ok = p.Verify(group, hash.New(), zkmul.Public{X: ctP, Y: ctP, C: ctP, Prover: prover})
		case 7:
			var p *zkmulstar.Proof
			if shape == 1 {
				p = &zkmulstar.Proof{}
			} else if shape == 2 {
				p = &zkmulstar.Proof{Commitment: &zkmulstar.Commitment{}}
			}
			ok = p.Verify(group, hash.New(), zkmulstar.Public{C: ctV, D: ctV, X: G, Verifier: verifier, Aux: aux})
		case 8:
			var p *zknth.Proof
			if shape >= 1 {
				p = &zknth.Proof{}
			}
			ok = p.Verify(hash.New(), zknth.Public{N: prover, R: nonce})
		case 9:
			var p *zkfac.Proof
			if shape >= 1 {
				p = &zkfac.Proof{}
			}
			ok = p.Verify(zkfac.Public{N: prover.N(), Aux: aux}, hash.New())
		case 10:
			var p *zkmod.Proof
			if shape == 1 {
				p = &zkmod.Proof{}
			} else if shape == 2 {
				// W well-formed (Jacobi -1 cannot be arranged without the factors: any W; the responses are empty)
				p = &zkmod.Proof{W: big.NewInt(2)}
			}
			ok = p.Verify(zkmod.Public{N: prover.N()}, hash.New(), nil)
		case 11:
			var p *zkprm.Proof
			if shape >= 1 {
				p = &zkprm.Proof{}
			}
			ok = p.Verify(zkprm.Public{Aux: aux}, hash.New(), nil)
		case 12:
			var p *zklog.Proof
			if shape == 1 {
				p = &zklog.Proof{}
			} else if shape == 2 {
				p = &zklog.Proof{Commitment: &zklog.Commitment{}}
			}
			ok = p.Verify(hash.New(), zklog.Public{H: G, X: G, Y: G})
		case 13:
			var p *zkelog.Proof
			if shape == 1 {
				p = &zkelog.Proof{}
			} else if shape == 2 {
				p = &zkelog.Proof{Commitment: &zkelog.Commitment{}}
			}
			ok = p.Verify(hash.New(), zkelog.Public{Base: G, Y: G})
		}
	})
	vsym.Assert(!panicked, "zk proof verifiers reject proofs with absent fields without panicking")
	vsym.Assert(panicked || !ok, "a proof with absent fields is never accepted")
	vsym.Reach("empty-shape-checked")
}
