//go:build verif

package vharn

import (
	"github.com/taurusgroup/multi-party-sig/internal/vsym"
	"github.com/taurusgroup/multi-party-sig/pkg/math/curve"
	"github.com/taurusgroup/multi-party-sig/pkg/party"
	"github.com/taurusgroup/multi-party-sig/protocols/cmp"
	"github.com/taurusgroup/multi-party-sig/protocols/doerner"
	"github.com/taurusgroup/multi-party-sig/protocols/example"
)

var c20U = []party.ID{"a", "b", "c", ""}

func c20List(name string, max int) []party.ID {
	n := vsym.Choose(name+".n", max+1)
	out := make([]party.ID, n)
	for i := range out {
		out[i] = c20U[vsym.Choose(name+".id", len(c20U))]
	}
	return out
}

func c20Bad(l []party.ID, self party.ID) bool {
	seen := map[party.ID]bool{}
	bad, hasSelf := len(l) == 0, false
	for _, id := range l {
		if seen[id] || id == "" {
			bad = true
		}
		seen[id] = true
		if id == self {
			hasSelf = true
		}
	}
	return bad || !hasSelf
}

// H_C20_CmpKeygenStart: cmp.Keygen and the XOR example with arbitrary threshold / participants / own id: the start
// function returns an error exactly for invalid parameters and never panics.
func H_C20_CmpKeygenStart() {
	parts := c20List("parts", 3)
	self := c20U[vsym.Choose("self", len(c20U))]
	t := vsym.Int("t", -2, 4)
	r, err := cmp.Keygen(curve.Secp256k1{}, self, parts, t, nil)([]byte("sid"))
	bad := c20Bad(parts, self)
	vsym.Assert(vsym.Implies(vsym.Or(bad, vsym.Or(t < 0, t > len(parts)-1)), err != nil), "cmp.Keygen refuses invalid parameters")
	if !bad {
		vsym.Assert(vsym.Implies(vsym.And(t >= 0, t <= len(parts)-1), vsym.And(err == nil, r != nil)), "cmp.Keygen accepts valid parameters")
	}
	r2, err2 := example.StartXOR(self, party.IDSlice(parts))([]byte("sid"))
	vsym.Assert(vsym.Implies(bad, err2 != nil), "example.StartXOR refuses invalid parameters")
	_ = r2
	vsym.Reach("cmp-keygen-start-checked")
}

// H_C20_NilMaterial: every start function that takes key material refuses absent material with an error.
func H_C20_NilMaterial() {
	sid := []byte("sid")
	signers := []party.ID{"a", "b"}
	msg := []byte("message hash")
	switch vsym.Choose("func", 9) {
	case 0:
		_, err := cmp.Refresh(nil, nil)(sid)
		vsym.Assert(err != nil, "cmp.Refresh(nil) is refused")
	case 1:
		_, err := cmp.Sign(nil, signers, msg, nil)(sid)
		vsym.Assert(err != nil, "cmp.Sign(nil config) is refused")
	case 2:
		_, err := cmp.Presign(nil, signers, nil)(sid)
		vsym.Assert(err != nil, "cmp.Presign(nil config) is refused")
	case 3:
		_, err := cmp.PresignOnline(nil, nil, msg, nil)(sid)
		vsym.Assert(err != nil, "cmp.PresignOnline(nil, nil) is refused")
	case 4:
		_, err := doerner.SignReceiver(nil, "a", "b", msg, nil)(sid)
		vsym.Assert(err != nil, "doerner.SignReceiver(nil config) is refused")
	case 5:
		_, err := doerner.SignSender(nil, "a", "b", msg, nil)(sid)
		vsym.Assert(err != nil, "doerner.SignSender(nil config) is refused")
	case 6:
		_, err := doerner.RefreshReceiver(nil, "a", "b", nil)(sid)
		vsym.Assert(err != nil, "doerner.RefreshReceiver(nil config) is refused")
	case 7:
		_, err := doerner.RefreshSender(nil, "a", "b", nil)(sid)
		vsym.Assert(err != nil, "doerner.RefreshSender(nil config) is refused")
	case 8:
		self := c20U[vsym.Choose("self", len(c20U))]
		other := c20U[vsym.Choose("other", len(c20U))]
		_, err := doerner.Keygen(curve.Secp256k1{}, vsym.Choose("recv", 2) == 1, self, other, nil)(sid)
		vsym.Assert(vsym.Implies(self == other || self == "" || other == "", err != nil), "doerner.Keygen refuses equal or empty identifiers")
	}
	vsym.Reach("nil-material-checked")
}
