//go:build verif

package ot

import (
	"github.com/cronokirby/saferith"
	"github.com/taurusgroup/multi-party-sig/internal/params"
	"github.com/taurusgroup/multi-party-sig/pkg/math/curve"
	"github.com/taurusgroup/multi-party-sig/pkg/math/sample"
	"github.com/taurusgroup/multi-party-sig/internal/vsym"
	"github.com/taurusgroup/multi-party-sig/pkg/hash"
)

// H_C13_BitAt: bitAt(i, data) is bit (i mod 8) of byte (i div 8), little-endian within the byte, for all data.
func H_C13_BitAt() {
	data := vsym.Bytes("data", 4, 4)
	i := vsym.Int("i", 0, 31)
	got := bitAt(i, data)
	// reference: the whole buffer as one little-endian integer
	word := uint32(data[0]) | uint32(data[1])<<8 | uint32(data[2])<<16 | uint32(data[3])<<24
	want := byte((word >> uint(i)) & 1)
	vsym.Assert(got == want, "bitAt is the i-th bit in little-endian bit order")
	vsym.Reach("bitat-checked")
}

// H_C13_Transpose: transposeBits is the bit-matrix transpose: bit j of output row i is bit i of input row j.
func H_C13_Transpose() {
	l := 8 * vsym.Param("batchbytes", 1)
	var M [params.OTParam][]byte
	for j := range M {
		M[j] = vsym.Bytes("row", l/8, l/8)
	}
	MT := transposeBits(l, &M)
	vsym.Assert(len(MT) == l, "one output row per input column")
	i := vsym.Choose("i", l)
	j := vsym.Choose("j", params.OTParam)
	vsym.Assert(bitAt(j, MT[i][:]) == bitAt(i, M[j]), "MT[i][j] = M[j][i]")
	vsym.Reach("transpose-checked")
}

// H_C13_CorreOT: correlated OT extension on the real code with symbolic seeds, correlation Delta and choice bits;
// the PRG is an uninterpreted function of its seed. For every position j of the batch:
// T_j = Q_j xor (c_j * Delta), i.e. the defining relation of correlated OT.
func H_C13_CorreOT() {
	nb := vsym.Param("batchbytes", 1)
	var recv CorreOTReceiveSetup
	var send CorreOTSendSetup
	delta := vsym.Bytes("delta", params.OTBytes, params.OTBytes)
	copy(send._Delta[:], delta)
	for i := 0; i < params.OTParam; i++ {
		k0 := vsym.Bytes("k0", params.OTBytes, params.OTBytes)
		k1 := vsym.Bytes("k1", params.OTBytes, params.OTBytes)
		copy(recv._K_0[i][:], k0)
		copy(recv._K_1[i][:], k1)
		// the seed the sender obtained with its bit of Delta
		copy(send._K_Delta[i][:], vsym.SelectBytes(bitAt(i, delta) == 1, k1, k0))
	}
	choices := vsym.Bytes("choices", nb, nb)
	ctx := hash.New()
	msg, rres := CorreOTReceive(ctx.Clone(), &recv, choices)
	sres, err := CorreOTSend(ctx.Clone(), &send, 8*nb, msg)
	vsym.Assert(err == nil, "sender accepts the receiver's message")
	j := vsym.Choose("j", 8*nb)
	cj := -bitAt(j, choices) // 0x00 or 0xff
	ok := true
	for b := 0; b < params.OTBytes; b++ {
		ok = vsym.And(ok, rres._T[j][b] == sres._Q[j][b]^(cj&delta[b]))
	}
	vsym.Assert(ok, "T_j = Q_j xor c_j*Delta for every position of the batch")
	// a message with the wrong batch size is refused
	bad := *msg
	bad.U[0] = append([]byte{}, msg.U[0][:nb-1]...)
	_, err2 := CorreOTSend(ctx.Clone(), &send, 8*nb, &bad)
	vsym.Assert(err2 != nil, "wrong batch size is refused")
	vsym.Reach("correot-checked")
}

// H_C13_CorreShape: a receiver message in which ANY one of the 128 columns has the wrong length (shorter or longer than the
// batch) is refused by CorreOTSend with an error, never with a panic; the well-formed message is accepted.
func H_C13_CorreShape() {
	nb := 2
	var send CorreOTSendSetup
	for i := range send._Delta {
		send._Delta[i] = 0xa5
	}
	var msg CorreOTReceiveMessage
	for i := range msg.U {
		msg.U[i] = make([]byte, nb)
	}
	_, err := CorreOTSend(hash.New(), &send, 8*nb, &msg)
	vsym.Assert(err == nil, "well-formed message accepted")
	k := vsym.Choose("column", params.OTParam)
	if vsym.Choose("longer", 2) == 1 {
		msg.U[k] = make([]byte, nb+1)
	} else {
		msg.U[k] = make([]byte, nb-1)
	}
	var err2 error
	panicked := vsym.ExpectPanic(func() { _, err2 = CorreOTSend(hash.New(), &send, 8*nb, &msg) })
	vsym.Assert(!panicked, "a column of the wrong length never crashes the sender")
	vsym.Assert(panicked || err2 != nil, "a column of the wrong length is refused")
	vsym.Reach("correshape-checked")
}

// c13Setups builds a consistent pair of correlated-OT setups from concrete pseudo-random keys (what the setup protocol
// produces: the sender holds Delta and, for every i, the key selected by bit i of Delta).
func c13Setups() (*CorreOTSendSetup, *CorreOTReceiveSetup) {
	var recv CorreOTReceiveSetup
	var send CorreOTSendSetup
	x := uint32(2463534242)
	next := func() byte { x ^= x << 13; x ^= x >> 17; x ^= x << 5; return byte(x >> 11) }
	for i := range send._Delta {
		send._Delta[i] = next()
	}
	for i := 0; i < params.OTParam; i++ {
		for j := 0; j < params.OTBytes; j++ {
			recv._K_0[i][j], recv._K_1[i][j] = next(), next()
		}
		if bitAt(i, send._Delta[:]) == 1 {
			send._K_Delta[i] = recv._K_1[i]
		} else {
			send._K_Delta[i] = recv._K_0[i]
		}
	}
	return &send, &recv
}

// H_C13_MultiplyTamper (NOT registered in checks/C13.json: about 100 s and 10 GB per path inside the engine): the whole multiplication protocol (real NewMultiplySender / NewMultiplyReceiver / Round1 /
// Round2 over the real additive, extended and correlated OT code) executed with concrete inputs from the boundary lattice
// {0, 1, q-1, 12345} on a concrete setup: the two output shares add up to alpha*beta; and when ONE pad of the sender's
// message is altered at a position chosen per path, the receiver's Round2 either reports an error or the shares still
// add up to the product.
func H_C13_MultiplyTamper() {
	group := curve.Secp256k1{}
	send, recv := c13Setups()
	qm1 := group.NewScalar().SetNat(new(saferith.Nat).SetUint64(1)).Negate()
	lattice := []curve.Scalar{group.NewScalar(), group.NewScalar().SetNat(new(saferith.Nat).SetUint64(1)), qm1, group.NewScalar().SetNat(new(saferith.Nat).SetUint64(12345))}
	alpha := lattice[vsym.Choose("alpha", len(lattice))]
	beta := lattice[vsym.Choose("beta", len(lattice))]
	ctx := hash.New()
	sender := NewMultiplySender(ctx.Clone(), send, alpha)
	receiver, err := NewMultiplyReceiver(ctx.Clone(), recv, beta)
	vsym.Assert(err == nil, "receiver starts")
	msgR1 := receiver.Round1()
	msgS1, shareA, err := sender.Round1(msgR1)
	vsym.Assert(err == nil, "sender accepts the honest receiver message")
	want := group.NewScalar().Set(alpha).Mul(beta)
	tamper := vsym.Choose("tamper", 1+vsym.Param("positions", 6))
	if tamper > 0 {
		// alter the pad for choice 0 at one gadget position (spread over the batch, never the last position only)
		pos := []int{0, 1, 131, 300, 517, 670}[tamper-1]
		pads := msgS1.Msg.CombinedPads
		pads[pos][0][len(pads[pos][0])-1] ^= 1
	}
	shareB, err := receiver.Round2(msgS1)
	if tamper == 0 {
		vsym.Assert(err == nil && group.NewScalar().Set(shareA).Add(shareB).Equal(want), "honest run: the shares add up to alpha*beta")
	} else {
		vsym.Assert(err != nil || group.NewScalar().Set(shareA).Add(shareB).Equal(want), "altered pad: an error, or a still-correct product")
	}
	vsym.Reach("multiply-tamper-checked")
}

// H_C13_AdditiveShape: the receiver side of the additive OT and of the multiplication on a sender message of the wrong
// SHAPE (too few pads, one pad one byte shorter or longer at an arbitrary position, a nil pad, too few check values, a nil
// check value): Round2 returns an error — or, for the well-formed shape, a result — and never panics. The receiver's state
// is constructed directly (5 choice bytes = 40 transfers) so that only Round2's own handling of the message is exercised.
func H_C13_AdditiveShape() {
	group := curve.Secp256k1{}
	nb := 5
	batch := 8 * nb
	choices := make([]byte, nb)
	for i := range choices {
		choices[i] = byte(0x5a + i)
	}
	mkRecv := func() *AdditiveOTReceiver {
		res := &ExtendedOTReceiveResult{_VChoices: make([][params.OTBytes]byte, batch)}
		return &AdditiveOTReceiver{ctxHash: hash.New(), group: group, choices: choices, result: res}
	}
	pad, _ := group.NewScalar().SetNat(new(saferith.Nat).SetUint64(9)).MarshalBinary()
	mkMsg := func() *AdditiveOTSendRound1Message {
		m := &AdditiveOTSendRound1Message{CombinedPads: make([][2][]byte, batch)}
		for i := range m.CombinedPads {
			m.CombinedPads[i][0], m.CombinedPads[i][1] = append([]byte{}, pad...), append([]byte{}, pad...)
		}
		return m
	}
	level := vsym.Choose("level", 2)
	shape := vsym.Choose("shape", 6)
	pos := vsym.Choose("position", batch)
	side := vsym.Choose("side", 2)
	msg := mkMsg()
	switch shape {
	case 1:
		msg.CombinedPads = msg.CombinedPads[:pos]
	case 2:
		msg.CombinedPads[pos][side] = msg.CombinedPads[pos][side][:31]
	case 3:
		msg.CombinedPads[pos][side] = append(msg.CombinedPads[pos][side], 0)
	case 4:
		msg.CombinedPads[pos][side] = nil
	case 5:
		msg.CombinedPads = nil
	}
	var err error
	panicked := vsym.ExpectPanic(func() {
		if level == 0 {
			_, err = mkRecv().Round2(msg)
		} else {
			gadget := make([]curve.Scalar, batch)
			rcheck := make([]curve.Scalar, batch)
			for i := range gadget {
				gadget[i], rcheck[i] = group.NewScalar(), group.NewScalar()
			}
			mr := &MultiplyReceiver{ctxHash: hash.New(), group: group, beta: group.NewScalar(), gadget: gadget, choices: choices, receiver: mkRecv()}
			out := &MultiplySendRound1Message{Msg: msg, RCheck: rcheck, UCheck: group.NewScalar()}
			switch vsym.Choose("checks", 4) {
			case 1:
				out.RCheck = out.RCheck[:pos]
			case 2:
				out.RCheck[pos] = nil
			case 3:
				out.UCheck = nil
			}
			_, err = mr.Round2(out)
		}
	})
	vsym.Assert(!panicked, "a sender message of the wrong shape never crashes the receiver")
	if shape != 0 {
		vsym.Assert(panicked || err != nil, "a sender message of the wrong shape is refused")
	}
	vsym.Reach("additive-shape-checked")
}

// H_C13_SenderShape: the sender side of the multiplication on a receiver message whose nested parts are absent (what a
// decoder produces when inner fields are omitted): Round1 reports an error and never panics.
func H_C13_SenderShape() {
	group := curve.Secp256k1{}
	send, _ := c13Setups()
	depth := vsym.Choose("depth", 4)
	var msg *MultiplyReceiveRound1Message
	switch depth {
	case 1:
		msg = &MultiplyReceiveRound1Message{}
	case 2:
		msg = &MultiplyReceiveRound1Message{Msg: &AdditiveOTReceiveRound1Message{}}
	case 3:
		msg = &MultiplyReceiveRound1Message{Msg: &AdditiveOTReceiveRound1Message{Msg: &ExtendedOTReceiveMessage{}}}
	}
	var err error
	panicked := vsym.ExpectPanic(func() {
		_, _, err = NewMultiplySender(hash.New(), send, group.NewScalar().SetNat(new(saferith.Nat).SetUint64(3))).Round1(msg)
	})
	vsym.Assert(!panicked, "a receiver message with absent parts never crashes the sender")
	vsym.Assert(panicked || err != nil, "a receiver message with absent parts is refused")
	vsym.Reach("sender-shape-checked")
}

// H_C13_MultiplyCheck: the integrity check of MultiplyReceiver.Round2 covers EVERY gadget position. The receiver's state
// is constructed directly (40 transfers); a sender message is completed so that the check equation
// result_i0*chi0 + result_i1*chi1 = choice_i*UCheck - RCheck_i holds at every position (it is accepted), and then the check
// value of ONE position — any of the 40, chosen per path — is altered: Round2 must report an error.
func H_C13_MultiplyCheck() {
	group := curve.Secp256k1{}
	nb := 5
	batch := 8 * nb
	choices := []byte{0x5a, 0xc3, 0x0f, 0xa1, 0x96}
	sc := func(v uint64) curve.Scalar { return group.NewScalar().SetNat(new(saferith.Nat).SetUint64(v)) }
	mkAdd := func() *AdditiveOTReceiver {
		res := &ExtendedOTReceiveResult{_VChoices: make([][params.OTBytes]byte, batch)}
		for i := range res._VChoices {
			res._VChoices[i][0] = byte(i + 1)
		}
		return &AdditiveOTReceiver{ctxHash: hash.New(), group: group, choices: choices, result: res}
	}
	mkPads := func() *AdditiveOTSendRound1Message {
		m := &AdditiveOTSendRound1Message{CombinedPads: make([][2][]byte, batch)}
		for i := range m.CombinedPads {
			m.CombinedPads[i][0], _ = sc(uint64(100 + i)).MarshalBinary()
			m.CombinedPads[i][1], _ = sc(uint64(300 + i)).MarshalBinary()
		}
		return m
	}
	gadget := make([]curve.Scalar, batch)
	for i := range gadget {
		gadget[i] = sc(uint64(i + 2))
	}
	mkRecv := func() *MultiplyReceiver {
		return &MultiplyReceiver{ctxHash: hash.New(), group: group, beta: sc(7), gadget: gadget, choices: choices, receiver: mkAdd()}
	}
	// what the receiver will compute from the pads, and the check randomness it will derive
	result, err := mkAdd().Round2(mkPads())
	vsym.Assume(err == nil)
	digest := hash.New().Fork(&hash.BytesWithDomain{TheDomain: "Multiply Chi Sampling", Bytes: nil}).Digest()
	chi0 := sample.Scalar(digest, group)
	chi1 := sample.Scalar(digest, group)
	ucheck := sc(424242)
	rcheck := make([]curve.Scalar, batch)
	for i := range rcheck {
		left := group.NewScalar().Set(result[i][0]).Mul(chi0).Add(group.NewScalar().Set(result[i][1]).Mul(chi1))
		right := group.NewScalar()
		if bitAt(i, choices) == 1 {
			right.Set(ucheck)
		}
		rcheck[i] = right.Sub(left)
	}
	_, err = mkRecv().Round2(&MultiplySendRound1Message{Msg: mkPads(), RCheck: rcheck, UCheck: ucheck})
	vsym.Assert(err == nil, "a message that satisfies the check equation at every position is accepted")
	pos := vsym.Choose("position", batch)
	bad := make([]curve.Scalar, batch)
	copy(bad, rcheck)
	bad[pos] = group.NewScalar().Set(rcheck[pos]).Add(sc(1))
	_, err = mkRecv().Round2(&MultiplySendRound1Message{Msg: mkPads(), RCheck: bad, UCheck: ucheck})
	vsym.Assert(err != nil, "a check value altered at any single position is detected")
	vsym.Reach("multiply-check-checked")
}

// H_C13_FieldOps: eq is equality and shl1 is a one-bit left shift of the 256-bit little-endian value.
func H_C13_FieldOps() {
	var a, b fieldElement
	for i := range a {
		a[i] = vsym.Uint64("a")
		b[i] = vsym.Uint64("b")
	}
	same := true
	for i := range a {
		same = vsym.And(same, a[i] == b[i])
	}
	vsym.Assert(a.eq(&b) == same, "eq is limb-wise equality")
	c := a
	c.shl1()
	ok := c[0] == a[0]<<1
	for i := 1; i < len(a); i++ {
		ok = vsym.And(ok, c[i] == (a[i]<<1|a[i-1]>>63))
	}
	vsym.Assert(ok, "shl1 shifts the little-endian value left by one bit")
	vsym.Reach("fieldops-checked")
}

// H_C13_AccumulateW1: accumulate(a, b) adds (XORs) the carry-less product a*b into f. For every single-bit a = x^p
// (all 128 positions) and EVERY b: f' = f xor (b << p) as a 256-bit little-endian value.
func H_C13_AccumulateW1() {
	p := vsym.Choose("p", 128)
	var a, b [params.OTBytes]byte
	a[p>>3] = 1 << (p & 7)
	copy(b[:], vsym.Bytes("b", params.OTBytes, params.OTBytes))
	var f fieldElement
	for i := range f {
		f[i] = vsym.Uint64("f")
	}
	f0 := f
	f.accumulate(&a, &b)
	// reference: b as two little-endian limbs shifted left by p bits inside 4 limbs
	var bl [2]uint64
	for i := 0; i < 2; i++ {
		for k := 0; k < 8; k++ {
			bl[i] |= uint64(b[8*i+k]) << (8 * uint(k))
		}
	}
	var want fieldElement
	limb, off := p/64, uint(p%64)
	for i := 0; i < 2; i++ {
		want[limb+i] ^= bl[i] << off
		if off != 0 {
			want[limb+i+1] ^= bl[i] >> (64 - off)
		}
	}
	ok := true
	for i := range f {
		ok = vsym.And(ok, f[i] == f0[i]^want[i])
	}
	vsym.Assert(ok, "accumulate(x^p, b) adds b shifted by p")
	vsym.Reach("accumulate-checked")
}

// H_C13_GadgetEncode: the receiver's start of a multiplication (real NewMultiplyReceiver -> makeGadget, encode) for the
// boundary lattice of inputs, including 0, 1 and q-1: it succeeds, keeps its input, and produces one choice bit per
// gadget element. (The defining relation sum_i choice_i * gadget_i = beta is NOT asserted here: with symbolic noise bits
// the engine's scalar model is too coarse for it and reported counterexamples that do not reproduce natively.)
func H_C13_GadgetEncode() {
	group := curve.Secp256k1{}
	one := group.NewScalar().SetNat(new(saferith.Nat).SetUint64(1))
	var beta curve.Scalar
	switch vsym.Choose("beta", 5) {
	case 0:
		beta = group.NewScalar()
	case 1:
		beta = one
	case 2:
		beta = group.NewScalar().Sub(one) // q-1
	case 3:
		beta = group.NewScalar().SetNat(new(saferith.Nat).Lsh(new(saferith.Nat).SetUint64(1), 255, -1))
	default:
		beta = group.NewScalar().SetNat(new(saferith.Nat).SetUint64(0xdeadbeefcafe))
	}
	want := group.NewScalar().Set(beta)
	recv, err := NewMultiplyReceiver(hash.New(), nil, beta)
	vsym.Assert(err == nil && recv != nil, "a multiplication can be started for every scalar, including 0, 1 and q-1")
	vsym.Assert(len(recv.choices)*8 == len(recv.gadget), "one choice bit per gadget element")
	vsym.Assert(recv.beta.Equal(want), "the receiver keeps its input unchanged")
	snd := NewMultiplySender(hash.New(), nil, group.NewScalar().Set(beta))
	vsym.Assert(snd != nil && len(snd.gadget) == len(recv.gadget) && snd.doubleAlpha[0].Equal(want), "the sender starts for the same inputs with the same gadget size")
	vsym.Reach("gadget-encode-checked")
}
