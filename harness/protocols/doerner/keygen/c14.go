//go:build verif

package keygen

import (
	"crypto/hmac"
	"crypto/rand"
	"crypto/sha512"

	"github.com/cronokirby/saferith"
	"github.com/taurusgroup/multi-party-sig/internal/vsym"
	"github.com/taurusgroup/multi-party-sig/pkg/math/curve"
	"github.com/taurusgroup/multi-party-sig/pkg/math/sample"
)

func c14Fill(b byte) []byte {
	out := make([]byte, 32)
	for i := range out {
		out[i] = b
	}
	return out
}

// H_C14_DoernerDerive (field mode): Doerner key material (additive shares s_S + s_R of the key, as key generation and
// refresh produce it) with symbolic shares: DeriveBIP32 at a symbolic non-hardened index on BOTH sides gives the same
// child public key point(I_L) + K and chain code I_R that BIP-32 prescribes, the two derived shares are a sharing of the
// child key ((s_S' + s_R')*G = K'), the parent objects are unchanged, and derivation can be repeated on the derived
// material (depth 2).
func H_C14_DoernerDerive() {
	group := curve.Secp256k1{}
	sS, sR := sample.Scalar(rand.Reader, group), sample.Scalar(rand.Reader, group)
	K := group.NewScalar().Set(sS).Add(sR).ActOnBase()
	snd := &ConfigSender{SecretShare: group.NewScalar().Set(sS), Public: K, ChainKey: c14Fill(2)}
	rcv := &ConfigReceiver{SecretShare: group.NewScalar().Set(sR), Public: K, ChainKey: c14Fill(2)}
	depth := vsym.Param("depth", 2)
	for d := 0; d < depth; d++ {
		idx := vsym.Uint32([]string{"index0", "index1", "index2", "index3"}[d])
		vsym.Assume(idx < 1<<31)
		if vsym.Choose("fixed-index", 2) == 1 {
			// a concrete index whose four bytes all differ: a byte-order or truncation slip in ser32(i) shows as a
			// counterexample without symbolic index, which the native replay reproduces
			idx = 0x01020304
		}
		vsym.Assert(len(snd.ChainKey) == 32 && vsym.BytesEq(snd.ChainKey, rcv.ChainKey), "both sides hold the same 32-byte chain key")
		mac := hmac.New(sha512.New, snd.ChainKey)
		ser, _ := snd.Public.MarshalBinary()
		mac.Write(ser)
		mac.Write([]byte{byte(idx >> 24), byte(idx >> 16), byte(idx >> 8), byte(idx)})
		I := mac.Sum(nil)
		il := group.NewScalar().SetNat(new(saferith.Nat).SetBytes(I[:32]))
		wantKey := il.ActOnBase().Add(snd.Public)
		s0, r0 := group.NewScalar().Set(snd.SecretShare), group.NewScalar().Set(rcv.SecretShare)
		cs, err := snd.DeriveBIP32(idx)
		vsym.Assert(err == nil, "sender derivation succeeds")
		cr, err := rcv.DeriveBIP32(idx)
		vsym.Assert(err == nil, "receiver derivation succeeds")
		vsym.Assert(cs.Public.Equal(wantKey) && cr.Public.Equal(wantKey), "child public key is point(I_L) + parent key on both sides")
		vsym.Assert(vsym.BytesEq(cs.ChainKey, I[32:]) && vsym.BytesEq(cr.ChainKey, I[32:]), "child chain code is I_R on both sides")
		vsym.Assert(group.NewScalar().Set(cs.SecretShare).Add(cr.SecretShare).ActOnBase().Equal(wantKey), "the derived shares are a sharing of the child key")
		vsym.Assert(snd.SecretShare.Equal(s0) && rcv.SecretShare.Equal(r0), "deriving leaves the parent shares unchanged")
		snd, rcv = cs, cr
	}
	vsym.Reach("doerner-derive-checked")
}
