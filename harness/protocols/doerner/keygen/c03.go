//go:build verif

package keygen

import (
	"crypto/rand"

	"github.com/taurusgroup/multi-party-sig/internal/ot"
	"github.com/taurusgroup/multi-party-sig/internal/round"
	"github.com/taurusgroup/multi-party-sig/internal/vsym"
	"github.com/taurusgroup/multi-party-sig/pkg/math/curve"
	"github.com/taurusgroup/multi-party-sig/pkg/math/sample"
	"github.com/taurusgroup/multi-party-sig/pkg/party"
	zksch "github.com/taurusgroup/multi-party-sig/pkg/zk/sch"
)

// H_C03_DoernerKeygenTamper (field mode): the Sender's check of the Receiver's second message in Doerner key generation
// AND refresh. The receiver committed to (public share, chain key, refresh scalar) in round 1; the honest opening is
// accepted, and an opening in which exactly one of the three values (or the proof, or a decommitment) was replaced after
// the commitment was sent is rejected — in both modes. (In refresh a receiver that can change its refresh scalar after
// seeing the sender's can cancel the sender's contribution and keep the sender's old share valid.)
func H_C03_DoernerKeygenTamper() {
	group := curve.Secp256k1{}
	refresh := vsym.Choose("refresh", 2) == 1
	helper, err := round.NewSession(round.Info{ProtocolID: "doerner/keygen", FinalRoundNumber: 3, SelfID: "s", PartyIDs: party.IDSlice{"r", "s"}, Threshold: 1, Group: group}, []byte("sid"), nil)
	vsym.Assume(err == nil)
	// the receiver's values and its round-1 commitments
	sR := sample.Scalar(rand.Reader, group)
	pubR := sR.ActOnBase()
	chainR := c14Fill(7)
	refR := sample.Scalar(rand.Reader, group)
	c1, d1, e1 := helper.Hash().Commit(pubR)
	c2, d2, e2 := helper.Hash().Commit(chainR)
	c3, d3, e3 := helper.Hash().Commit(refR)
	vsym.Assume(e1 == nil && e2 == nil && e3 == nil)
	proof := zksch.NewProof(helper.Hash(), pubR, sR, nil)
	sS := sample.Scalar(rand.Reader, group)
	r := &round2S{round1S: &round1S{Helper: helper, refresh: refresh, secretShare: sS, publicShare: sS.ActOnBase(),
		receiverCommit: c1, chainKeyCommit: c2, refreshCommit: c3}, chainKey: c14Fill(1), refreshScalar: sample.Scalar(rand.Reader, group)}
	if refresh {
		r.public = group.NewScalar().Set(sS).Add(sR).ActOnBase()
	}
	body := &message2R{Decommit: d1, ChainKeyDecommit: d2, RefreshDecommit: d3, ChainKey: chainR, PublicShare: pubR, RefreshScalar: refR, Proof: proof,
		OtMsg: &ot.CorreOTSetupReceiveRound2Message{}}
	what := vsym.Choose("tamper", 7)
	switch what {
	case 1:
		other := sample.Scalar(rand.Reader, group)
		body.PublicShare = other.ActOnBase()
		body.Proof = zksch.NewProof(helper.Hash(), body.PublicShare, other, nil)
	case 2:
		body.ChainKey = c14Fill(9)
	case 3:
		// the refresh scalar chosen after seeing the sender's: the sender's own scalar
		body.RefreshScalar = group.NewScalar().Set(r.refreshScalar)
	case 4:
		body.RefreshScalar = sample.Scalar(rand.Reader, group)
	case 5:
		body.Proof = zksch.NewProof(helper.Hash(), sample.Scalar(rand.Reader, group).ActOnBase(), sR, nil)
	case 6:
		body.RefreshDecommit, body.ChainKeyDecommit = body.ChainKeyDecommit, body.RefreshDecommit
	}
	verr := r.VerifyMessage(round.Message{From: "r", To: "s", Content: body})
	if what == 0 {
		vsym.Assert(verr == nil, "the honest opening is accepted")
	} else {
		vsym.Assert(verr != nil, "an opening that differs from the commitment in one value is rejected (key generation and refresh)")
	}
	vsym.Reach("doerner-keygen-tamper-checked")
}

// H_C08_DoernerShareUpdate (field mode): the Sender's handling of the Receiver's opening (real round2S.StoreMessage) in a
// refresh. The new share is old + own refresh scalar - peer's refresh scalar, and the scalar object the session was
// started with — the caller's stored ConfigSender.SecretShare, which StartKeygen hands to the rounds without copying —
// is left untouched, so that a refresh abandoned at any later point leaves the stored key material valid. The OT setup
// state is arbitrary (havoc); only the share arithmetic is asserted.
func H_C08_DoernerShareUpdate() {
	group := curve.Secp256k1{}
	helper, err := round.NewSession(round.Info{ProtocolID: "doerner/keygen", FinalRoundNumber: 3, SelfID: "s", PartyIDs: party.IDSlice{"r", "s"}, Threshold: 1, Group: group}, []byte("sid"), nil)
	vsym.Assume(err == nil)
	stored := sample.Scalar(rand.Reader, group) // the caller's long-lived share
	before := group.NewScalar().Set(stored)
	own := sample.Scalar(rand.Reader, group)
	peer := sample.Scalar(rand.Reader, group)
	snd := new(ot.CorreOTSetupSender)
	vsym.Havoc(snd, "otsender")
	r := &round2S{round1S: &round1S{Helper: helper, refresh: true, secretShare: stored, publicShare: stored.ActOnBase(), sender: snd},
		chainKey: c14Fill(1), refreshScalar: own}
	body := &message2R{ChainKey: c14Fill(7), PublicShare: peer.ActOnBase(), RefreshScalar: peer, OtMsg: &ot.CorreOTSetupReceiveRound2Message{}}
	serr := r.StoreMessage(round.Message{From: "r", To: "s", Content: body})
	vsym.Assert(serr == nil, "the opening is stored")
	vsym.Assert(stored.Equal(before), "handling the peer's opening leaves the caller's stored secret share unchanged")
	vsym.Assert(r.secretShare.Equal(group.NewScalar().Set(before).Add(own).Sub(peer)), "refreshed share = old share + own refresh scalar - peer's refresh scalar")
	vsym.Reach("doerner-share-update-checked")
}
