//go:build verif

package presign

import (
	"crypto/rand"
	"errors"

	"github.com/cronokirby/saferith"
	"github.com/taurusgroup/multi-party-sig/internal/types"
	"github.com/taurusgroup/multi-party-sig/internal/vsym"
	"github.com/taurusgroup/multi-party-sig/pkg/ecdsa"
	"github.com/taurusgroup/multi-party-sig/pkg/math/curve"
	"github.com/taurusgroup/multi-party-sig/pkg/math/polynomial"
	"github.com/taurusgroup/multi-party-sig/pkg/math/sample"
	"github.com/taurusgroup/multi-party-sig/pkg/party"
	"github.com/taurusgroup/multi-party-sig/pkg/protocol"
	"github.com/taurusgroup/multi-party-sig/pkg/zk"
	"github.com/taurusgroup/multi-party-sig/protocols/cmp/config"
)

var c01IDs = []party.ID{"a", "b", "c", "d"}

func c01Drain(h protocol.Handler) []*protocol.Message {
	var out []*protocol.Message
	ch := h.Listen()
	for {
		select {
		case m, ok := <-ch:
			if !ok {
				return out
			}
			out = append(out, m)
		default:
			return out
		}
	}
}

func c01Run(hs map[party.ID]protocol.Handler, ids []party.ID) {
	for step := 0; step < 12; step++ {
		var batch []*protocol.Message
		for _, id := range ids {
			batch = append(batch, c01Drain(hs[id])...)
		}
		if len(batch) == 0 {
			return
		}
		for _, m := range batch {
			for _, id := range ids {
				if hs[id].CanAccept(m) {
					hs[id].Accept(m)
				}
			}
		}
	}
}

// H_C01_CmpOnlineSign (field mode): the ONLINE phase of CMP signing with presignatures, through the real
// StartPresignOnline / sign1 / sign2 rounds and the real MultiHandler. Key material: a symbolic degree-t sharing over n
// parties; signers: an arbitrary subset of more than t parties; presignatures: symbolic nonce shares k_j and
// chi_j = k * lambda_j * x_j (the relation the offline phase establishes), R = k^-1 * G, RBar_j = k_j * R, S_j = chi_j * R.
// All-honest: every signer obtains the same signature, which satisfies the textbook ECDSA equation under the group key.
// One signer holding a wrong nonce share (its sigma is inconsistent while everything it sends is well-formed): every
// honest signer ends with an error that names exactly that signer.
func H_C01_CmpOnlineSign() {
	group := curve.Secp256k1{}
	n := vsym.Choose("n", vsym.Param("maxn", 3)) + 1
	if n < 2 {
		vsym.Stop()
	}
	ids := c01IDs[:n]
	t := vsym.Choose("t", n)
	secret := sample.Scalar(rand.Reader, group)
	f := polynomial.NewPolynomial(group, t, secret)
	X := secret.ActOnBase()
	shares := map[party.ID]curve.Scalar{}
	for _, id := range ids {
		shares[id] = f.Evaluate(id.Scalar(group))
	}
	var signers []party.ID
	for _, id := range ids {
		if vsym.Choose("signer", 2) == 1 {
			signers = append(signers, id)
		}
	}
	if len(signers) <= t {
		vsym.Stop()
	}
	cfgs := map[party.ID]*config.Config{}
	for _, id := range signers {
		pub := map[party.ID]*config.Public{}
		for _, j := range ids {
			pub[j] = &config.Public{ECDSA: shares[j].ActOnBase(), ElGamal: group.NewBasePoint(), Paillier: zk.ProverPaillierPublic, Pedersen: zk.Pedersen}
		}
		cfgs[id] = &config.Config{Group: group, ID: id, Threshold: t, ECDSA: shares[id], ElGamal: group.NewScalar(), RID: types.RID(c05Fill(1)), ChainKey: types.RID(c05Fill(2)), Public: pub}
	}
	// presignatures
	lag := polynomial.Lagrange(group, signers)
	ks := map[party.ID]curve.Scalar{}
	k := group.NewScalar()
	for _, id := range signers {
		ks[id] = sample.Scalar(rand.Reader, group)
		k.Add(ks[id])
	}
	R := group.NewScalar().Set(k).Invert().ActOnBase()
	rbar, sp := map[party.ID]curve.Point{}, map[party.ID]curve.Point{}
	chi := map[party.ID]curve.Scalar{}
	for _, id := range signers {
		chi[id] = group.NewScalar().Set(k).Mul(lag[id]).Mul(shares[id])
		rbar[id], sp[id] = ks[id].Act(R), chi[id].Act(R)
	}
	cheater := party.ID("")
	if vsym.Choose("cheat", 2) == 1 {
		cheater = signers[vsym.Choose("who", len(signers))]
	}
	msg := []byte("0123456789abcdef0123456789abcdef")
	hs := map[party.ID]protocol.Handler{}
	for _, id := range signers {
		kshare := ks[id]
		if id == cheater {
			kshare = group.NewScalar().Set(ks[id]).Add(group.NewScalar().SetNat(new(saferith.Nat).SetUint64(1)))
		}
		pre := &ecdsa.PreSignature{ID: types.RID(c05Fill(3)), R: R, RBar: party.NewPointMap(rbar), S: party.NewPointMap(sp), KShare: kshare, ChiShare: chi[id]}
		h, err := protocol.NewMultiHandler(StartPresignOnline(cfgs[id], pre, msg, nil), []byte("sid"))
		vsym.Assert(err == nil, "online signing starts")
		hs[id] = h
	}
	c01Run(hs, signers)
	m := curve.FromHash(group, msg)
	var first *ecdsa.Signature
	for _, id := range signers {
		res, err := hs[id].Result()
		if cheater == "" {
			vsym.Assert(err == nil, "all-honest online signing completes")
			sig := res.(*ecdsa.Signature)
			// textbook ECDSA: s*R' = m*G + r*X with R' the signature's point and r its x-coordinate
			r := sig.R.XScalar()
			vsym.Assert(sig.S.Act(sig.R).Equal(m.ActOnBase().Add(r.Act(X))), "signature satisfies the ECDSA equation under the group key")
			if first == nil {
				first = sig
			}
			vsym.Assert(sig.R.Equal(first.R) && sig.S.Equal(first.S), "all signers obtain the same signature")
		} else if id != cheater {
			var perr protocol.Error
			vsym.Assert(err != nil && errors.As(err, &perr), "a session with an inconsistent share does not yield a signature")
			vsym.Assert(len(perr.Culprits) == 1 && perr.Culprits[0] == cheater, "every honest signer names exactly the signer whose share is inconsistent")
		}
	}
	vsym.Reach("cmp-online-sign-checked")
}
