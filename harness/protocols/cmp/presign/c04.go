//go:build verif

package presign

import (
	"crypto/rand"
	"github.com/cronokirby/saferith"
	"github.com/taurusgroup/multi-party-sig/internal/round"
	"github.com/taurusgroup/multi-party-sig/internal/vsym"
	"github.com/taurusgroup/multi-party-sig/pkg/ecdsa"
	"github.com/taurusgroup/multi-party-sig/pkg/math/curve"
	"github.com/taurusgroup/multi-party-sig/pkg/math/sample"
	"github.com/taurusgroup/multi-party-sig/pkg/party"
	"github.com/taurusgroup/multi-party-sig/pkg/zk"
	"github.com/taurusgroup/multi-party-sig/protocols/cmp/config"
	zklog "github.com/taurusgroup/multi-party-sig/pkg/zk/log"
)

// H_C04_CmpAbortHonestAccepted: the identification broadcasts of HONEST parties are accepted. Party "a" is in the
// identification round abort1 (resp. abort2) after a complete run; peers b and c build their broadcast exactly as the real
// presign6 / presign7 Finalize do (proveNth on the ciphertexts they received, with their real Paillier secret key), and a's
// real StoreBroadcastMessage must return nil for each — otherwise the handler attributes the "failed proof" to an honest
// sender and the cheater is never singled out. Afterwards Finalize must produce the protocol's Abort round without
// panicking. Concrete (real 2048-bit Paillier arithmetic inside the engine), replayed natively.
func H_C04_CmpAbortHonestAccepted() {
	group := curve.Secp256k1{}
	p7 := c05State()
	p6 := p7.presign6
	sk := zk.VerifierPaillierSecret // the key of b and c in c05State
	which := vsym.Choose("round", 2)
	gamma := new(saferith.Int).SetUint64(77)
	out := make(chan *round.Message, 8)
	if which == 0 {
		a1 := &abort1{presign6: p6, GammaShares: map[party.ID]*saferith.Int{"a": p6.GammaShare}, KShares: map[party.ID]*saferith.Int{"a": new(saferith.Int).SetUint64(1)},
			DeltaAlphas: map[party.ID]map[party.ID]*saferith.Int{"a": p6.DeltaShareAlpha}}
		for _, from := range []party.ID{"b", "c"} {
			p6.BigGammaShare[from] = group.NewScalar().SetNat(gamma.Mod(group.Order())).ActOnBase()
			proofs := map[party.ID]*abortNth{}
			for _, j := range c05IDs {
				if j != from {
					proofs[j] = proveNth(p6.HashForID(from), sk, p6.DeltaCiphertext[j][from])
				}
			}
			msg := &broadcastAbort1{GammaShare: gamma, KProof: proveNth(p6.HashForID(from), sk, p6.K[from]), DeltaProofs: proofs}
			err := a1.StoreBroadcastMessage(round.Message{From: from, Broadcast: true, Content: msg})
			vsym.Assert(err == nil, "abort1: an honest party's identification broadcast is accepted")
		}
		next, err := a1.Finalize(out)
		_, isAbort := next.(*round.Abort)
		vsym.Assert(err == nil && isAbort, "abort1 ends in the protocol's Abort round")
	} else {
		a2 := &abort2{presign7: p7, YHat: map[party.ID]curve.Point{"a": group.NewBasePoint()}, KShares: map[party.ID]curve.Scalar{"a": group.NewScalar()},
			ChiAlphas: map[party.ID]map[party.ID]curve.Scalar{"a": {"b": group.NewScalar(), "c": group.NewScalar()}}}
		for _, from := range []party.ID{"b", "c"} {
			// b's ElGamal material: secret y, nonce n: ElGamal[from] = y*G, ElGamalChi[from].L = n*G, YHat = n*y*G
			y := group.NewScalar().SetNat(new(saferith.Nat).SetUint64(21))
			n := group.NewScalar().SetNat(new(saferith.Nat).SetUint64(22))
			p7.ElGamal[from] = y.ActOnBase()
			p7.ElGamalChi[from].L = n.ActOnBase()
			yhat := n.Act(p7.ElGamal[from])
			yproof := zklog.NewProof(group, p7.HashForID(from), zklog.Public{H: n.ActOnBase(), X: p7.ElGamal[from], Y: yhat}, zklog.Private{A: y, B: n})
			proofs := map[party.ID]*abortNth{}
			for _, j := range c05IDs {
				if j != from {
					proofs[j] = proveNth(p7.HashForID(from), sk, p7.ChiCiphertext[j][from])
				}
			}
			msg := &broadcastAbort2{YHat: yhat, YHatProof: yproof, KProof: proveNth(p7.HashForID(from), sk, p7.K[from]), ChiProofs: proofs}
			err := a2.StoreBroadcastMessage(round.Message{From: from, Broadcast: true, Content: msg})
			vsym.Assert(err == nil, "abort2: an honest party's identification broadcast is accepted")
		}
		next, err := a2.Finalize(out)
		_, isAbort := next.(*round.Abort)
		vsym.Assert(err == nil && isAbort, "abort2 ends in the protocol's Abort round")
	}
	vsym.Reach("cmp-abort-honest-checked")
}

// H_C04_CmpRoundNumbers: every round a presigning session can enter — including the identification rounds abort1 and
// abort2 — lies within the number of rounds the session declares, in the offline (no message), full and online variants.
// The handler sizes its message queues by that number and finalizes a round it has no queue for at once: an
// identification round beyond it would run without the peers' broadcasts (and crash) instead of naming the cheater.
func H_C04_CmpRoundNumbers() {
	group := curve.Secp256k1{}
	pub := map[party.ID]*config.Public{}
	for i, id := range c05IDs {
		pub[id] = &config.Public{ECDSA: group.NewScalar().SetNat(new(saferith.Nat).SetUint64(uint64(5 + i))).ActOnBase(), ElGamal: group.NewBasePoint(),
			Paillier: zk.ProverPaillierPublic, Pedersen: zk.Pedersen}
	}
	c := &config.Config{Group: group, ID: "a", Threshold: 2, ECDSA: group.NewScalar().SetNat(new(saferith.Nat).SetUint64(5)), ElGamal: group.NewScalar().SetNat(new(saferith.Nat).SetUint64(6)),
		Paillier: zk.ProverPaillierSecret, RID: c05Fill(1), ChainKey: c05Fill(2), Public: pub}
	var msg []byte
	if vsym.Choose("variant", 2) == 1 {
		msg = []byte("0123456789abcdef0123456789abcdef")
	}
	s, err := StartPresign(c, c05IDs, msg, nil)([]byte("sid"))
	vsym.Assert(err == nil, "presign session starts")
	final := s.FinalRoundNumber()
	vsym.Assert((&presign7{}).Number() <= final, "round 7 is within the declared rounds")
	vsym.Assert((&abort1{}).Number() <= final, "identification round abort1 is within the declared rounds")
	vsym.Assert((&abort2{}).Number() <= final, "identification round abort2 is within the declared rounds")
	if msg != nil {
		vsym.Assert((&sign2{}).Number() <= final, "the signing round is within the declared rounds")
	}
	vsym.Reach("cmp-round-numbers-checked")
}

// H_C04_CmpPresignatureAssembly (field mode): the last presigning round turns its tables into the presignature object that
// the online phase uses for signing and for identifying a bad signature share. With symbolic nonce shares k_j and
// chi_j (R = k^-1 G, RBar_j = k_j R, S_j = chi_j R, sum S_j = X) the real presign7.Finalize must output a presignature
// under which every honest share sigma_j = m k_j + r chi_j passes VerifySignatureShares and a wrong share is attributed to
// exactly its sender — i.e. the tables went into the right fields.
func H_C04_CmpPresignatureAssembly() {
	group := curve.Secp256k1{}
	p7 := c05State()
	ks, chis := map[party.ID]curve.Scalar{}, map[party.ID]curve.Scalar{}
	k := group.NewScalar()
	for _, id := range c05IDs {
		ks[id], chis[id] = sample.Scalar(rand.Reader, group), sample.Scalar(rand.Reader, group)
		k.Add(ks[id])
	}
	R := group.NewScalar().Set(k).Invert().ActOnBase()
	X := group.NewPoint()
	for _, id := range c05IDs {
		p7.RBar[id], p7.S[id] = ks[id].Act(R), chis[id].Act(R)
		X = X.Add(p7.S[id])
	}
	p7.R, p7.PublicKey, p7.KShare, p7.ChiShare, p7.Message = R, X, ks["a"], chis["a"], nil
	p7.PresignatureID["c"] = c05Fill(4) // the XOR of the three identifiers must not vanish
	next, err := p7.Finalize(make(chan *round.Message, 8))
	out, ok := next.(*round.Output)
	vsym.Assert(err == nil && ok, "consistent tables: presigning outputs a presignature")
	pre := out.Result.(*ecdsa.PreSignature)
	vsym.Assert(pre.Validate() == nil, "the presignature is well-formed")
	msg := []byte("0123456789abcdef0123456789abcdef")
	m, r := curve.FromHash(group, msg), R.XScalar()
	shares := map[party.ID]ecdsa.SignatureShare{}
	for _, id := range c05IDs {
		shares[id] = group.NewScalar().Set(m).Mul(ks[id]).Add(group.NewScalar().Set(r).Mul(chis[id]))
	}
	vsym.Assert(pre.SignatureShare(msg).Equal(shares["a"]), "own signature share is m*k_a + r*chi_a")
	vsym.Assert(len(pre.VerifySignatureShares(shares, msg)) == 0, "honest signature shares are accepted under the assembled presignature")
	bad := c05IDs[vsym.Choose("bad", len(c05IDs))]
	shares[bad] = group.NewScalar().Set(shares[bad]).Add(group.NewScalar().SetNat(new(saferith.Nat).SetUint64(1)))
	culprits := pre.VerifySignatureShares(shares, msg)
	vsym.Assert(len(culprits) == 1 && culprits[0] == bad, "a wrong signature share is attributed to exactly its sender")
	vsym.Reach("cmp-presignature-assembly-checked")
}
