//go:build verif

package presign

import (
	"github.com/cronokirby/saferith"
	"github.com/taurusgroup/multi-party-sig/internal/elgamal"
	"github.com/taurusgroup/multi-party-sig/internal/round"
	"github.com/taurusgroup/multi-party-sig/internal/types"
	"github.com/taurusgroup/multi-party-sig/internal/vsym"
	"github.com/taurusgroup/multi-party-sig/pkg/hash"
	"github.com/taurusgroup/multi-party-sig/pkg/math/curve"
	"github.com/taurusgroup/multi-party-sig/pkg/paillier"
	"github.com/taurusgroup/multi-party-sig/pkg/party"
	"github.com/taurusgroup/multi-party-sig/pkg/pedersen"
	"github.com/taurusgroup/multi-party-sig/pkg/zk"
)

var c05IDs = party.IDSlice{"a", "b", "c"}

func c05Fill(b byte) []byte {
	out := make([]byte, 32)
	for i := range out {
		out[i] = b
	}
	return out
}

// c05State builds the state of party "a" as it is after an honest run up to the last presigning round: every table has
// an entry for every party, filled with well-formed placeholder values (the values themselves do not matter for what is
// checked: that handling an arbitrary incoming message never crashes).
func c05State() *presign7 {
	group := curve.Secp256k1{}
	helper, err := round.NewSession(round.Info{ProtocolID: "cmp/presign-test", FinalRoundNumber: 7, SelfID: "a", PartyIDs: c05IDs, Threshold: 2, Group: group}, []byte("sid"), nil)
	vsym.Assume(err == nil)
	sc := func(v uint64) curve.Scalar { return group.NewScalar().SetNat(new(saferith.Nat).SetUint64(v)) }
	pt := func(v uint64) curve.Point { return sc(v).ActOnBase() }
	one, nonce := new(saferith.Int).SetUint64(1), new(saferith.Nat).SetUint64(3)
	pks := map[party.ID]*paillier.PublicKey{"a": zk.ProverPaillierPublic, "b": zk.VerifierPaillierPublic, "c": zk.VerifierPaillierPublic}
	// one ciphertext per key, shared by all table entries (the engine re-executes this set-up on every path)
	encP, encV := zk.ProverPaillierPublic.EncWithNonce(one, nonce), zk.VerifierPaillierPublic.EncWithNonce(one, nonce)
	cts := map[party.ID]*paillier.Ciphertext{"a": encP, "b": encV, "c": encV}
	p1 := &presign1{Helper: helper, SecretECDSA: sc(5), SecretElGamal: sc(6), SecretPaillier: zk.ProverPaillierSecret, PublicKey: pt(50),
		ECDSA: map[party.ID]curve.Point{}, ElGamal: map[party.ID]curve.Point{}, Paillier: pks, Pedersen: map[party.ID]*pedersen.Parameters{}, Message: []byte("m")}
	p2 := &presign2{presign1: p1, K: map[party.ID]*paillier.Ciphertext{}, G: map[party.ID]*paillier.Ciphertext{}, GammaShare: one, KShare: sc(7),
		KNonce: nonce, GNonce: nonce, ElGamalKNonce: sc(8), ElGamalK: map[party.ID]*elgamal.Ciphertext{},
		PresignatureID: map[party.ID]types.RID{}, CommitmentID: map[party.ID]hash.Commitment{}, DecommitmentID: c05Fill(9)}
	p3 := &presign3{presign2: p2, DeltaShareBeta: map[party.ID]*saferith.Int{}, ChiShareBeta: map[party.ID]*saferith.Int{},
		DeltaCiphertext: map[party.ID]map[party.ID]*paillier.Ciphertext{}, ChiCiphertext: map[party.ID]map[party.ID]*paillier.Ciphertext{}}
	p4 := &presign4{presign3: p3, DeltaShareAlpha: map[party.ID]*saferith.Int{}, ChiShareAlpha: map[party.ID]*saferith.Int{}, ElGamalChiNonce: sc(9),
		ElGamalChi: map[party.ID]*elgamal.Ciphertext{}, DeltaShares: map[party.ID]curve.Scalar{}, ChiShare: sc(10)}
	p5 := &presign5{presign4: p4, BigGammaShare: map[party.ID]curve.Point{}}
	p6 := &presign6{presign5: p5, BigDeltaShares: map[party.ID]curve.Point{}, Gamma: pt(60)}
	p7 := &presign7{presign6: p6, Delta: sc(11), S: map[party.ID]curve.Point{}, R: pt(70), RBar: map[party.ID]curve.Point{}}
	for i, id := range c05IDs {
		v := uint64(i + 1)
		p1.ECDSA[id], p1.ElGamal[id], p1.Pedersen[id] = pt(10+v), pt(20+v), zk.Pedersen
		p2.K[id], p2.G[id] = cts[id], cts[id]
		p2.ElGamalK[id] = &elgamal.Ciphertext{L: pt(30 + v), M: pt(40 + v)}
		p2.PresignatureID[id], p2.CommitmentID[id] = c05Fill(byte(v)), c05Fill(byte(16+v))
		p3.DeltaShareBeta[id], p3.ChiShareBeta[id] = one, one
		p3.DeltaCiphertext[id], p3.ChiCiphertext[id] = map[party.ID]*paillier.Ciphertext{}, map[party.ID]*paillier.Ciphertext{}
		for _, k := range c05IDs {
			p3.DeltaCiphertext[id][k], p3.ChiCiphertext[id][k] = cts[k], cts[k]
		}
		p4.DeltaShareAlpha[id], p4.ChiShareAlpha[id] = one, one
		p4.ElGamalChi[id] = &elgamal.Ciphertext{L: pt(80 + v), M: pt(90 + v)}
		p4.DeltaShares[id] = sc(100 + v)
		p5.BigGammaShare[id], p6.BigDeltaShares[id] = pt(110+v), pt(120+v)
		p7.S[id], p7.RBar[id] = pt(130+v), pt(140+v)
	}
	return p7
}

// H_C05_CmpPresignContent: for every message-handling function of the CMP presigning rounds 2..7 and the two
// identification rounds (abort1, abort2), the state of an honest party after a complete honest run and ONE incoming
// message from peer "b" whose content is whatever a decoder can leave in the pre-shaped content object (every exported
// field arbitrary: pointers nil or not, map entries present or not and nil or not, numbers symbolic, points and scalars
// arbitrary): the function returns (nil or an error) — it never panics.
func H_C05_CmpPresignContent() {
	p7 := c05State()
	p6, p5 := p7.presign6, p7.presign6.presign5
	p4, p3, p2 := p5.presign4, p5.presign4.presign3, p5.presign4.presign3.presign2
	a1 := &abort1{presign6: p6, GammaShares: map[party.ID]*saferith.Int{}, KShares: map[party.ID]*saferith.Int{}, DeltaAlphas: map[party.ID]map[party.ID]*saferith.Int{}}
	a2 := &abort2{presign7: p7, YHat: map[party.ID]curve.Point{}, KShares: map[party.ID]curve.Scalar{}, ChiAlphas: map[party.ID]map[party.ID]curve.Scalar{}}
	type target struct {
		name    string
		bcast   func() round.BroadcastContent
		p2p     func() round.Content
		storeB  func(round.Message) error
		verify  func(round.Message) error
		storeM  func(round.Message) error
	}
	targets := []target{
		{"presign2", p2.BroadcastContent, p2.MessageContent, p2.StoreBroadcastMessage, p2.VerifyMessage, p2.StoreMessage},
		{"presign3", p3.BroadcastContent, p3.MessageContent, p3.StoreBroadcastMessage, p3.VerifyMessage, p3.StoreMessage},
		{"presign4", p4.BroadcastContent, nil, p4.StoreBroadcastMessage, nil, nil},
		{"presign5", p5.BroadcastContent, p5.MessageContent, p5.StoreBroadcastMessage, p5.VerifyMessage, p5.StoreMessage},
		{"presign6", p6.BroadcastContent, nil, p6.StoreBroadcastMessage, nil, nil},
		{"presign7", p7.BroadcastContent, nil, p7.StoreBroadcastMessage, nil, nil},
		{"abort1", a1.BroadcastContent, nil, a1.StoreBroadcastMessage, nil, nil},
		{"abort2", a2.BroadcastContent, nil, a2.StoreBroadcastMessage, nil, nil},
	}
	only := vsym.Param("target", -1)
	ti := vsym.Choose("target", len(targets))
	if only >= 0 && ti != only {
		vsym.Stop()
	}
	t := targets[ti]
	kind := vsym.Choose("kind", 2)
	if kind == 1 && t.p2p == nil {
		vsym.Stop()
	}
	panicked := vsym.ExpectPanic(func() {
		if kind == 0 {
			c := t.bcast()
			vsym.HavocInto(c, "bcast")
			_ = t.storeB(round.Message{From: "b", To: "", Broadcast: true, Content: c})
		} else {
			c := t.p2p()
			vsym.HavocInto(c, "p2p")
			m := round.Message{From: "b", To: "a", Content: c}
			if t.verify(m) == nil {
				_ = t.storeM(m)
			}
		}
	})
	vsym.Assert(!panicked, "handling an arbitrary incoming CMP presign message never panics")
	vsym.Reach("cmp-presign-content-checked")
}

// H_C05_CmpAbortShapes: concrete incomplete identification broadcasts (the shapes a decoder produces when fields or map
// entries are absent or null) never crash the receiver: StoreBroadcastMessage returns an error, or — if it accepts —
// Finalize runs. Natively replayable companion of H_C05_CmpPresignContent for the two identification rounds.
func H_C05_CmpAbortShapes() {
	group := curve.Secp256k1{}
	p7 := c05State()
	p6 := p7.presign6
	one := new(saferith.Int).SetUint64(1)
	nat := new(saferith.Nat).SetUint64(5)
	shape := vsym.Choose("shape", 6)
	which := vsym.Choose("round", 2)
	out := make(chan *round.Message, 8)
	mk := func() map[party.ID]*abortNth {
		switch shape {
		case 1:
			return map[party.ID]*abortNth{}
		case 2:
			return map[party.ID]*abortNth{"a": nil, "c": nil}
		case 3:
			return map[party.ID]*abortNth{"a": {}, "c": {}}
		case 4:
			return map[party.ID]*abortNth{"a": {Plaintext: one, Nonce: nat}, "zz": {Plaintext: one, Nonce: nat}}
		}
		return nil
	}
	panicked := vsym.ExpectPanic(func() {
		if which == 0 {
			a1 := &abort1{presign6: p6, GammaShares: map[party.ID]*saferith.Int{"a": one}, KShares: map[party.ID]*saferith.Int{"a": one},
				DeltaAlphas: map[party.ID]map[party.ID]*saferith.Int{"a": p6.DeltaShareAlpha}}
			body := &broadcastAbort1{DeltaProofs: mk()}
			if shape >= 3 {
				body.GammaShare, body.KProof = one, &abortNth{Plaintext: one, Nonce: nat}
			}
			if shape == 5 {
				body.KProof = &abortNth{}
			}
			okB := a1.StoreBroadcastMessage(round.Message{From: "b", Broadcast: true, Content: body}) == nil
			okC := a1.StoreBroadcastMessage(round.Message{From: "c", Broadcast: true, Content: &broadcastAbort1{GammaShare: one}}) == nil
			if okB && okC {
				_, _ = a1.Finalize(out)
			}
		} else {
			a2 := &abort2{presign7: p7, YHat: map[party.ID]curve.Point{"a": group.NewBasePoint()}, KShares: map[party.ID]curve.Scalar{"a": group.NewScalar()},
				ChiAlphas: map[party.ID]map[party.ID]curve.Scalar{"a": {"b": group.NewScalar(), "c": group.NewScalar()}}}
			body := &broadcastAbort2{YHat: group.NewBasePoint(), ChiProofs: mk()}
			if shape >= 3 {
				body.KProof = &abortNth{Plaintext: one, Nonce: nat}
			}
			if shape == 5 {
				body.KProof = &abortNth{}
			}
			okB := a2.StoreBroadcastMessage(round.Message{From: "b", Broadcast: true, Content: body}) == nil
			okC := a2.StoreBroadcastMessage(round.Message{From: "c", Broadcast: true, Content: &broadcastAbort2{YHat: group.NewBasePoint()}}) == nil
			if okB && okC {
				_, _ = a2.Finalize(out)
			}
		}
	})
	vsym.Assert(!panicked, "an incomplete identification broadcast never crashes the receiver")
	vsym.Reach("cmp-abort-shapes-checked")
}
