//go:build verif

package config

import (
	"bytes"

	"github.com/cronokirby/saferith"
	"github.com/fxamacker/cbor/v2"
	"github.com/taurusgroup/multi-party-sig/internal/types"
	"github.com/taurusgroup/multi-party-sig/internal/vsym"
	"github.com/taurusgroup/multi-party-sig/pkg/math/curve"
	"github.com/taurusgroup/multi-party-sig/pkg/party"
	"github.com/taurusgroup/multi-party-sig/pkg/zk"
)

type pubKind struct {
	present          bool
	ecdsa, elgamal   int // 0 identity, 1 valid
	n                int // 0 nil, 1 valid, 2 even, 3 short
	s, t             int // 0 nil, 1 valid, 2 zero
	sEqualT          bool
}

func fill(b byte) []byte {
	out := make([]byte, 32)
	for i := range out {
		out[i] = b
	}
	return out
}

func c15Nat(kind int, valid *saferith.Nat) *saferith.Nat {
	switch kind {
	case 1:
		return new(saferith.Nat).SetNat(valid)
	case 2:
		return new(saferith.Nat).SetUint64(0)
	}
	return nil
}

// H_C15_CmpConfigDecode: Config.UnmarshalBinary on encodings whose fields are absent, degenerate or out of range.
// If restoring succeeds, the object satisfies the validity rules (non-zero secrets, non-identity points, odd 2048-bit
// moduli, valid and distinct Pedersen parameters for EVERY party including the owner, threshold in range, owner
// present) and can be used (hashed into a session) without panicking.
func H_C15_CmpConfigDecode() {
	group := curve.Secp256k1{}
	small := func(v uint64) curve.Scalar { return group.NewScalar().SetNat(new(saferith.Nat).SetUint64(v)) }
	own := zk.ProverPaillierSecret
	other := zk.VerifierPaillierPublic
	ped := zk.Pedersen
	cm := &configMarshal{ID: "a", RID: types.RID(fill(1)), ChainKey: types.RID(fill(2))}
	focus := vsym.Param("focus", 0) // 0: owner's entry varies, 1: the peer's entry varies, 2: threshold / secrets / presence vary
	cm.Threshold = 0
	secretZero := false
	if focus == 2 {
		cm.Threshold = vsym.Int("t", -1, 2)
		secretZero = vsym.Choose("ecdsazero", 2) == 1
	}
	cm.ECDSA, cm.ElGamal = small(5), small(6)
	if secretZero {
		cm.ECDSA = small(0)
	}
	primeKind := 0
	if focus == 2 {
		primeKind = vsym.Choose("prime", 3) // 0 valid, 1 nil, 2 not a safe prime of the right size
	}
	cm.P, cm.Q = own.P(), own.Q()
	switch primeKind {
	case 1:
		cm.P = nil
	case 2:
		cm.Q = new(saferith.Nat).SetUint64(7)
	}
	kinds := map[party.ID]*pubKind{}
	for _, id := range []party.ID{"a", "b"} {
		k := &pubKind{present: true, ecdsa: 1, elgamal: 1, n: 1, s: 1, t: 1}
		kinds[id] = k
		if focus == 2 {
			k.present = vsym.Choose("present", 2) == 1
		}
		if !k.present {
			continue
		}
		if (focus == 0 && id == "a") || (focus == 1 && id == "b") {
			k.ecdsa = vsym.Choose("ecdsa", 2)
			k.n = vsym.Choose("n", 4)
			k.s, k.t = vsym.Choose("s", 3), vsym.Choose("t", 3)
			k.sEqualT = vsym.Choose("seqt", 2) == 1
		}
		pm := &publicMarshal{ID: id, ECDSA: group.NewPoint(), ElGamal: small(9).ActOnBase()}
		if k.ecdsa == 1 {
			pm.ECDSA = small(4).ActOnBase()
		}
		nNat := other.N().Nat()
		switch k.n {
		case 1:
			pm.N = saferith.ModulusFromNat(nNat)
		case 2:
			pm.N = saferith.ModulusFromNat(new(saferith.Nat).Add(nNat, new(saferith.Nat).SetUint64(1), -1))
		case 3:
			pm.N = saferith.ModulusFromNat(new(saferith.Nat).SetUint64(15))
		}
		pm.S, pm.T = c15Nat(k.s, ped.S()), c15Nat(k.t, ped.T())
		if k.sEqualT && pm.S != nil {
			pm.T = new(saferith.Nat).SetNat(pm.S)
		}
		data, err := cbor.Marshal(pm)
		vsym.Assume(err == nil)
		cm.Public = append(cm.Public, data)
	}
	data, err := cbor.Marshal(cm)
	vsym.Assume(err == nil)
	c := EmptyConfig(group)
	var uerr error
	panicked := vsym.ExpectPanic(func() { uerr = c.UnmarshalBinary(data) })
	vsym.Assert(!panicked, "restoring a config never panics")
	if panicked || uerr != nil {
		vsym.Reach("config-refused")
		return
	}
	// accepted: must satisfy the validity rules
	n := 0
	good := !secretZero && primeKind == 0 && kinds["a"].present
	for _, id := range []party.ID{"a", "b"} {
		k := kinds[id]
		if !k.present {
			continue
		}
		n++
		pedOK := k.s == 1 && (k.t == 1 || k.sEqualT) && !(k.sEqualT)
		if id == "a" {
			// the owner's modulus comes from its own primes; its Pedersen parameters must still be usable
			good = good && pedOK
		} else {
			good = good && k.ecdsa == 1 && k.n == 1 && pedOK
		}
	}
	good = good && cm.Threshold >= 0 && cm.Threshold <= n-1
	vsym.Assert(good, "an accepted config satisfies the validity rules (incl. the owner's Pedersen parameters)")
	// and it can be used: hashing it into a session must not panic
	var buf bytes.Buffer
	var werr error
	p2 := vsym.ExpectPanic(func() { _, werr = c.WriteTo(&buf) })
	vsym.Assert(!p2 && werr == nil, "an accepted config can be hashed into a session")
	vsym.Reach("config-accepted")
}
