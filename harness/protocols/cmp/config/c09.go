//go:build verif

package config

import (
	"github.com/cronokirby/saferith"
	"github.com/taurusgroup/multi-party-sig/internal/types"
	"github.com/taurusgroup/multi-party-sig/internal/vsym"
	"github.com/taurusgroup/multi-party-sig/pkg/hash"
	"github.com/taurusgroup/multi-party-sig/pkg/math/curve"
	"github.com/taurusgroup/multi-party-sig/pkg/party"
	"github.com/taurusgroup/multi-party-sig/pkg/pedersen"
	"github.com/taurusgroup/multi-party-sig/pkg/zk"
)

// H_C09_CmpConfigBinds: the CMP configuration enters every signing / presigning / refresh session identifier through
// hash.WriteAny(config). Two configurations that differ in exactly one public component (threshold, a party's name, the
// RID byte string, or any party's ECDSA share, ElGamal key, Paillier modulus or Pedersen parameters) must leave the hash
// in different states, otherwise sessions over different key material share a tag. One component and one party per path;
// RID bytes and the threshold are symbolic.
func H_C09_CmpConfigBinds() {
	group := curve.Secp256k1{}
	pt := func(v uint64) curve.Point { return group.NewScalar().SetNat(new(saferith.Nat).SetUint64(v)).ActOnBase() }
	which := vsym.Choose("component", 8)
	who := party.ID("a")
	if vsym.Choose("party", 2) == 1 {
		who = "b"
	}
	rid2 := vsym.Bytes("rid", 32, 32)
	t2 := vsym.Int("t", 0, 3)
	build := func(alt bool) *Config {
		c := &Config{Group: group, ID: "a", Threshold: 1, RID: types.RID(fill(1)), ChainKey: types.RID(fill(2)), Public: map[party.ID]*Public{}}
		ids := []party.ID{"a", "b", "c"}
		for i, id := range ids {
			p := &Public{ECDSA: pt(uint64(10 + i)), ElGamal: pt(uint64(20 + i)), Paillier: zk.ProverPaillierPublic, Pedersen: zk.Pedersen}
			if alt && id == who {
				switch which {
				case 0:
					p.ECDSA = pt(99)
				case 1:
					p.ElGamal = pt(98)
				case 2:
					p.Paillier = zk.VerifierPaillierPublic
				case 3:
					p.Pedersen = pedersen.New(zk.Pedersen.NArith(), zk.Pedersen.T(), zk.Pedersen.S())
				}
			}
			name := id
			if alt && which == 4 && id == who {
				name = id + "x"
			}
			c.Public[name] = p
		}
		if alt {
			switch which {
			case 5:
				c.RID = types.RID(rid2)
			case 6:
				c.Threshold = t2
			case 7:
				delete(c.Public, "c")
			}
		}
		return c
	}
	sum := func(c *Config) []byte {
		h := hash.New()
		vsym.Assert(h.WriteAny(c) == nil, "a well-formed configuration can be hashed")
		return h.Sum()
	}
	base, alt := build(false), build(true)
	if which == 5 {
		vsym.Assume(!vsym.BytesEq(rid2, fill(1)))
	}
	if which == 6 {
		vsym.Assume(t2 != 1)
	}
	vsym.Assert(!vsym.BytesEq(sum(base), sum(alt)), "configurations differing in one public component hash differently")
	vsym.Assert(vsym.BytesEq(sum(base), sum(build(false))), "the configuration hash is a function of the configuration")
	vsym.Reach("cmp-config-binds-checked")
}
