//go:build verif

package config

import (
	"crypto/hmac"
	"crypto/rand"
	"crypto/sha512"

	"github.com/cronokirby/saferith"
	"github.com/taurusgroup/multi-party-sig/internal/types"
	"github.com/taurusgroup/multi-party-sig/internal/vsym"
	"github.com/taurusgroup/multi-party-sig/pkg/math/curve"
	"github.com/taurusgroup/multi-party-sig/pkg/math/polynomial"
	"github.com/taurusgroup/multi-party-sig/pkg/math/sample"
	"github.com/taurusgroup/multi-party-sig/pkg/party"
	"github.com/taurusgroup/multi-party-sig/pkg/zk"
)

var c14IDs = []party.ID{"a", "b", "c", "d"}

// c14Configs builds the CMP configurations of all parties for a degree-t sharing with symbolic coefficients.
func c14Configs(ids []party.ID, t int) (map[party.ID]*Config, curve.Point) {
	group := curve.Secp256k1{}
	secret := sample.Scalar(rand.Reader, group)
	f := polynomial.NewPolynomial(group, t, secret)
	shares := map[party.ID]curve.Scalar{}
	for _, id := range ids {
		shares[id] = f.Evaluate(id.Scalar(group))
	}
	elg := sample.Scalar(rand.Reader, group)
	out := map[party.ID]*Config{}
	for _, id := range ids {
		pub := map[party.ID]*Public{}
		for _, j := range ids {
			pub[j] = &Public{ECDSA: shares[j].ActOnBase(), ElGamal: elg.ActOnBase(), Paillier: zk.ProverPaillierPublic, Pedersen: zk.Pedersen}
		}
		out[id] = &Config{Group: group, ID: id, Threshold: t, ECDSA: group.NewScalar().Set(shares[id]), ElGamal: elg,
			RID: types.RID(fill(1)), ChainKey: types.RID(fill(2)), Public: pub}
	}
	return out, secret.ActOnBase()
}

func c14Consistent(cfgs map[party.ID]*Config, ids []party.ID, want curve.Point, what string) {
	for _, id := range ids {
		c := cfgs[id]
		vsym.Assert(c.PublicPoint().Equal(want), what+": the group key computed from the public shares is the expected key at every party")
		vsym.Assert(c.ECDSA.ActOnBase().Equal(c.Public[id].ECDSA), what+": the party's secret share matches its public share")
	}
}

// H_C02_CmpPublicPoint (field mode): for every n, every threshold 0 <= t < n and symbolic sharing polynomial, the group key
// a CMP configuration reports (Lagrange combination of the public shares) is the key of the shared secret f(0)*G.
func H_C02_CmpPublicPoint() {
	n := vsym.Choose("n", vsym.Param("maxn", 4)) + 1
	if n < 2 {
		vsym.Stop()
	}
	ids := c14IDs[:n]
	t := vsym.Choose("t", n)
	cfgs, Y := c14Configs(ids, t)
	c14Consistent(cfgs, ids, Y, "fresh")
	vsym.Reach("cmp-publicpoint-checked")
}

// H_C14_CmpDerive (field mode): BIP-32 derivation on CMP configurations: child key = point(I_L) + parent key and chain
// code = I_R (CKDpub written out over the same HMAC model) at every party, for two SIBLING children derived from the
// same parent objects at symbolic indices; children are consistent sharings; the parent configuration is left unchanged
// by deriving from it (share, public shares, chain key), so later derivations and sessions see the same parent.
func H_C14_CmpDerive() {
	n := vsym.Choose("n", vsym.Param("maxn", 3)) + 1
	if n < 2 {
		vsym.Stop()
	}
	ids := c14IDs[:n]
	t := vsym.Choose("t", n)
	group := curve.Secp256k1{}
	cfgs, Y := c14Configs(ids, t)
	before := map[party.ID]curve.Scalar{}
	for _, id := range ids {
		before[id] = group.NewScalar().Set(cfgs[id].ECDSA)
	}
	expect := func(idx uint32) (curve.Point, []byte) {
		mac := hmac.New(sha512.New, fill(2))
		ser, _ := Y.MarshalBinary()
		mac.Write(ser)
		mac.Write([]byte{byte(idx >> 24), byte(idx >> 16), byte(idx >> 8), byte(idx)})
		I := mac.Sum(nil)
		il := group.NewScalar().SetNat(new(saferith.Nat).SetBytes(I[:32]))
		return il.ActOnBase().Add(Y), I[32:]
	}
	children := [2]map[party.ID]*Config{{}, {}}
	var wantKey [2]curve.Point
	for k := 0; k < 2; k++ {
		idx := vsym.Uint32([]string{"index0", "index1", "index2", "index3"}[k])
		vsym.Assume(idx < 1<<31)
		if vsym.Choose("fixed-index", 2) == 1 {
			// a concrete index whose four bytes all differ: a byte-order or truncation slip in ser32(i) shows as a
			// counterexample without symbolic index, which the native replay reproduces
			idx = 0x01020304
		}
		var wantChain []byte
		wantKey[k], wantChain = expect(idx)
		for _, id := range ids {
			c, err := cfgs[id].DeriveBIP32(idx)
			vsym.Assert(err == nil, "derivation succeeds")
			vsym.Assert(vsym.BytesEq(c.ChainKey, wantChain), "child chain code is I_R at every party")
			children[k][id] = c
		}
		c14Consistent(children[k], ids, wantKey[k], "child")
		for _, id := range ids {
			vsym.Assert(cfgs[id].ECDSA.Equal(before[id]), "deriving a child leaves the parent's secret share unchanged")
		}
		c14Consistent(cfgs, ids, Y, "parent after derivation")
	}
	c14Consistent(children[0], ids, wantKey[0], "first child after deriving its sibling")
	vsym.Reach("cmp-derive-checked")
}
