//go:build verif

package keygen

import (
	"crypto/rand"

	"github.com/cronokirby/saferith"
	"github.com/taurusgroup/multi-party-sig/internal/round"
	"github.com/taurusgroup/multi-party-sig/internal/types"
	"github.com/taurusgroup/multi-party-sig/internal/vsym"
	"github.com/taurusgroup/multi-party-sig/pkg/hash"
	"github.com/taurusgroup/multi-party-sig/pkg/math/curve"
	"github.com/taurusgroup/multi-party-sig/pkg/math/polynomial"
	"github.com/taurusgroup/multi-party-sig/pkg/paillier"
	"github.com/taurusgroup/multi-party-sig/pkg/party"
	"github.com/taurusgroup/multi-party-sig/pkg/pedersen"
	"github.com/taurusgroup/multi-party-sig/pkg/zk"
	zksch "github.com/taurusgroup/multi-party-sig/pkg/zk/sch"
	"github.com/taurusgroup/multi-party-sig/protocols/cmp/config"
)

// c05State: party "a" after an honest key generation up to round 5 (tables filled with well-formed placeholders).
func c05State() *round5 {
	group := curve.Secp256k1{}
	ids := party.IDSlice{"a", "b", "c"}
	helper, err := round.NewSession(round.Info{ProtocolID: "cmp/keygen-test", FinalRoundNumber: 5, SelfID: "a", PartyIDs: ids, Threshold: 1, Group: group}, []byte("sid"), nil)
	vsym.Assume(err == nil)
	sc := func(v uint64) curve.Scalar { return group.NewScalar().SetNat(new(saferith.Nat).SetUint64(v)) }
	poly := polynomial.NewPolynomial(group, 1, sc(5))
	r1 := &round1{Helper: helper, VSSSecret: poly}
	r2 := &round2{round1: r1, VSSPolynomials: map[party.ID]*polynomial.Exponent{}, Commitments: map[party.ID]hash.Commitment{}, RIDs: map[party.ID]types.RID{},
		ChainKeys: map[party.ID]types.RID{}, ShareReceived: map[party.ID]curve.Scalar{}, ElGamalPublic: map[party.ID]curve.Point{},
		PaillierPublic: map[party.ID]*paillier.PublicKey{}, Pedersen: map[party.ID]*pedersen.Parameters{}, ElGamalSecret: sc(6),
		PaillierSecret: zk.ProverPaillierSecret, SchnorrRand: zksch.NewRandomness(rand.Reader, group, nil), Decommitment: c02Fill(7)}
	r3 := &round3{round2: r2, SchnorrCommitments: map[party.ID]*zksch.Commitment{}}
	r4 := &round4{round3: r3, RID: types.RID(c02Fill(1)), ChainKey: types.RID(c02Fill(2))}
	pub := map[party.ID]*config.Public{}
	for i, id := range ids {
		r2.VSSPolynomials[id] = polynomial.NewPolynomialExponent(poly)
		r2.Commitments[id], r2.RIDs[id], r2.ChainKeys[id] = c02Fill(byte(8+i)), types.RID(c02Fill(byte(16+i))), types.RID(c02Fill(byte(32+i)))
		r2.ShareReceived[id], r2.ElGamalPublic[id] = sc(uint64(40+i)), sc(uint64(50+i)).ActOnBase()
		r2.PaillierPublic[id], r2.Pedersen[id] = zk.ProverPaillierPublic, zk.Pedersen
		r3.SchnorrCommitments[id] = zksch.NewRandomness(rand.Reader, group, nil).Commitment()
		pub[id] = &config.Public{ECDSA: sc(uint64(60 + i)).ActOnBase(), ElGamal: r2.ElGamalPublic[id], Paillier: zk.ProverPaillierPublic, Pedersen: zk.Pedersen}
	}
	return &round5{round4: r4, UpdatedConfig: &config.Config{Group: group, ID: "a", Threshold: 1, ECDSA: sc(60), ElGamal: sc(6), Paillier: zk.ProverPaillierSecret,
		RID: types.RID(c02Fill(1)), ChainKey: types.RID(c02Fill(2)), Public: pub}}
}

// H_C05_CmpKeygenContent: the message-handling functions of CMP key generation rounds 2, 3 and 5 (broadcasts) and of round 4
// (the point-to-point share message with its zkfac proof), each on ONE incoming message from peer "b" whose content is
// whatever a decoder can leave in the pre-shaped content object: no panic. (The round-4 broadcast carries zkmod / zkprm
// proofs with 80 parallel responses each and is not explored; polynomial commitments keep their pre-shaped, empty value.)
func H_C05_CmpKeygenContent() {
	r5 := c05State()
	r4 := r5.round4
	r3, r2 := r4.round3, r4.round3.round2
	which := vsym.Choose("target", 4)
	if only := vsym.Param("target", -1); only >= 0 && which != only {
		vsym.Stop()
	}
	panicked := vsym.ExpectPanic(func() {
		switch which {
		case 0:
			c := r2.BroadcastContent()
			vsym.HavocInto(c, "bcast")
			_ = r2.StoreBroadcastMessage(round.Message{From: "b", Broadcast: true, Content: c})
		case 1:
			c := r3.BroadcastContent()
			vsym.HavocInto(c, "bcast")
			_ = r3.StoreBroadcastMessage(round.Message{From: "b", Broadcast: true, Content: c})
		case 2:
			c := r4.MessageContent()
			vsym.HavocInto(c, "p2p")
			m := round.Message{From: "b", To: "a", Content: c}
			if r4.VerifyMessage(m) == nil {
				_ = r4.StoreMessage(m)
			}
		case 3:
			c := r5.BroadcastContent()
			vsym.HavocInto(c, "bcast")
			_ = r5.StoreBroadcastMessage(round.Message{From: "b", Broadcast: true, Content: c})
		}
	})
	vsym.Assert(!panicked, "handling an arbitrary incoming CMP keygen message never panics")
	vsym.Reach("cmp-keygen-content-checked")
}
