//go:build verif

package keygen

import (
	"crypto/rand"

	"github.com/taurusgroup/multi-party-sig/internal/round"
	"github.com/taurusgroup/multi-party-sig/internal/types"
	"github.com/taurusgroup/multi-party-sig/internal/vsym"
	"github.com/taurusgroup/multi-party-sig/pkg/hash"
	"github.com/taurusgroup/multi-party-sig/pkg/math/curve"
	"github.com/taurusgroup/multi-party-sig/pkg/math/polynomial"
	"github.com/taurusgroup/multi-party-sig/pkg/math/sample"
	"github.com/taurusgroup/multi-party-sig/pkg/paillier"
	"github.com/taurusgroup/multi-party-sig/pkg/party"
	"github.com/taurusgroup/multi-party-sig/pkg/pedersen"
	"github.com/taurusgroup/multi-party-sig/pkg/zk"
	zksch "github.com/taurusgroup/multi-party-sig/pkg/zk/sch"
	"github.com/taurusgroup/multi-party-sig/protocols/cmp/config"
)

var c02IDs = []party.ID{"a", "b", "c", "d"}

func c02Fill(b byte) []byte {
	out := make([]byte, 32)
	for i := range out {
		out[i] = b
	}
	return out
}

// H_C02_CmpKeygenFinalize (field mode): the arithmetic of CMP key generation AND refresh as the real round4.Finalize does
// it. Every party j contributes a symbolic degree-t polynomial f_j (constant 0 in a refresh); party i's round-4 state holds
// the public polynomials F_j = f_j*G, the shares f_j(i) it received and, in a refresh, its previous share and the previous
// public shares. Finalize is run for every party. Key generation: all parties compute the same public shares, each new
// secret share matches its public share, the group key is (sum_j f_j(0))*G. Refresh: additionally the group key is
// unchanged, every share changes, and the caller's previous configuration objects (share and public shares) are left
// as they were.
func H_C02_CmpKeygenFinalize() {
	group := curve.Secp256k1{}
	n := vsym.Choose("n", vsym.Param("maxn", 3)) + 1
	if n < 2 {
		vsym.Stop()
	}
	ids := c02IDs[:n]
	t := vsym.Choose("t", n)
	refresh := vsym.Choose("refresh", 2) == 1
	// previous epoch (refresh only): a symbolic sharing
	var prevPoly *polynomial.Polynomial
	prevShare := map[party.ID]curve.Scalar{}
	prevPub := map[party.ID]curve.Point{}
	oldKey := group.NewPoint()
	if refresh {
		prevPoly = polynomial.NewPolynomial(group, t, sample.Scalar(rand.Reader, group))
		for _, id := range ids {
			prevShare[id] = prevPoly.Evaluate(id.Scalar(group))
			prevPub[id] = prevShare[id].ActOnBase()
		}
		oldKey = prevPoly.Constant().ActOnBase()
	}
	// every party's contribution
	polys := map[party.ID]*polynomial.Polynomial{}
	exps := map[party.ID]*polynomial.Exponent{}
	sumConst := group.NewScalar()
	for _, id := range ids {
		var c curve.Scalar
		if !refresh {
			c = sample.Scalar(rand.Reader, group)
			sumConst.Add(c)
		}
		polys[id] = polynomial.NewPolynomial(group, t, c)
		exps[id] = polynomial.NewPolynomialExponent(polys[id])
	}
	cfgs := map[party.ID]*config.Config{}
	given := map[party.ID]curve.Scalar{}
	for _, self := range ids {
		helper, err := round.NewSession(round.Info{ProtocolID: "cmp/keygen-test", FinalRoundNumber: 5, SelfID: self, PartyIDs: ids, Threshold: t, Group: group}, []byte("sid"), nil)
		vsym.Assume(err == nil)
		r1 := &round1{Helper: helper, VSSSecret: polys[self]}
		if refresh {
			given[self] = group.NewScalar().Set(prevShare[self])
			r1.PreviousSecretECDSA = given[self]
			r1.PreviousPublicSharesECDSA = prevPub
			r1.PreviousChainKey = types.RID(c02Fill(9))
		}
		r2 := &round2{round1: r1, VSSPolynomials: map[party.ID]*polynomial.Exponent{}, Commitments: map[party.ID]hash.Commitment{}, RIDs: map[party.ID]types.RID{},
			ChainKeys: map[party.ID]types.RID{}, ShareReceived: map[party.ID]curve.Scalar{}, ElGamalPublic: map[party.ID]curve.Point{},
			PaillierPublic: map[party.ID]*paillier.PublicKey{}, Pedersen: map[party.ID]*pedersen.Parameters{}, ElGamalSecret: sample.Scalar(rand.Reader, group),
			PaillierSecret: zk.ProverPaillierSecret, SchnorrRand: zksch.NewRandomness(rand.Reader, group, nil)}
		for _, j := range ids {
			r2.VSSPolynomials[j] = exps[j]
			r2.ShareReceived[j] = polys[j].Evaluate(self.Scalar(group))
			r2.ElGamalPublic[j], r2.PaillierPublic[j], r2.Pedersen[j] = group.NewBasePoint(), zk.ProverPaillierPublic, zk.Pedersen
		}
		r4 := &round4{round3: &round3{round2: r2, SchnorrCommitments: map[party.ID]*zksch.Commitment{}}, RID: types.RID(c02Fill(1)), ChainKey: types.RID(c02Fill(2))}
		next, err := r4.Finalize(make(chan *round.Message, 8))
		vsym.Assert(err == nil, "round 4 finalizes")
		cfgs[self] = next.(*round5).UpdatedConfig
	}
	want := sumConst.ActOnBase().Add(oldKey)
	first := cfgs[ids[0]]
	for _, id := range ids {
		c := cfgs[id]
		vsym.Assert(c.PublicPoint().Equal(want), "the group key is the sum of the contributed constants (plus the previous key in a refresh)")
		vsym.Assert(c.ECDSA.ActOnBase().Equal(c.Public[id].ECDSA), "the new secret share matches its public share")
		for _, j := range ids {
			vsym.Assert(c.Public[j].ECDSA.Equal(first.Public[j].ECDSA), "all parties compute the same public shares")
		}
		if refresh {
			vsym.Assert(given[id].Equal(prevShare[id]), "a refresh leaves the caller's previous secret share unchanged")
			vsym.Assert(prevPub[id].Equal(prevShare[id].ActOnBase()), "a refresh leaves the previous public shares unchanged")
			if t >= 1 {
				vsym.Assert(!c.ECDSA.Equal(prevShare[id]), "every party's share changes in a refresh")
			}
		}
	}
	if refresh {
		vsym.Assert(want.Equal(oldKey), "refresh leaves the group key unchanged")
	}
	vsym.Reach("cmp-keygen-finalize-checked")
}
