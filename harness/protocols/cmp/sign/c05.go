//go:build verif

package sign

import (
	"github.com/cronokirby/saferith"
	"github.com/taurusgroup/multi-party-sig/internal/round"
	"github.com/taurusgroup/multi-party-sig/internal/vsym"
	"github.com/taurusgroup/multi-party-sig/pkg/math/curve"
	"github.com/taurusgroup/multi-party-sig/pkg/paillier"
	"github.com/taurusgroup/multi-party-sig/pkg/party"
	"github.com/taurusgroup/multi-party-sig/pkg/pedersen"
	"github.com/taurusgroup/multi-party-sig/pkg/zk"
)

var c05IDs = party.IDSlice{"a", "b", "c"}

// c05State: the state of party "a" after an honest run of CMP signing up to the last round, every table filled with
// well-formed placeholder values.
func c05State() *round5 {
	group := curve.Secp256k1{}
	helper, err := round.NewSession(round.Info{ProtocolID: "cmp/sign-test", FinalRoundNumber: 5, SelfID: "a", PartyIDs: c05IDs, Threshold: 2, Group: group}, []byte("sid"), nil)
	vsym.Assume(err == nil)
	sc := func(v uint64) curve.Scalar { return group.NewScalar().SetNat(new(saferith.Nat).SetUint64(v)) }
	pt := func(v uint64) curve.Point { return sc(v).ActOnBase() }
	one, nonce := new(saferith.Int).SetUint64(1), new(saferith.Nat).SetUint64(3)
	pks := map[party.ID]*paillier.PublicKey{"a": zk.ProverPaillierPublic, "b": zk.VerifierPaillierPublic, "c": zk.VerifierPaillierPublic}
	// one ciphertext per key, shared by all table entries (the engine re-executes this set-up on every path)
	encP, encV := zk.ProverPaillierPublic.EncWithNonce(one, nonce), zk.VerifierPaillierPublic.EncWithNonce(one, nonce)
	cts := map[party.ID]*paillier.Ciphertext{"a": encP, "b": encV, "c": encV}
	r1 := &round1{Helper: helper, PublicKey: pt(50), SecretECDSA: sc(5), SecretPaillier: zk.ProverPaillierSecret, Paillier: pks,
		Pedersen: map[party.ID]*pedersen.Parameters{}, ECDSA: map[party.ID]curve.Point{}, Message: []byte("m")}
	r2 := &round2{round1: r1, K: map[party.ID]*paillier.Ciphertext{}, G: map[party.ID]*paillier.Ciphertext{}, BigGammaShare: map[party.ID]curve.Point{},
		GammaShare: one, KShare: sc(7), KNonce: nonce, GNonce: nonce}
	r3 := &round3{round2: r2, DeltaShareAlpha: map[party.ID]*saferith.Int{}, DeltaShareBeta: map[party.ID]*saferith.Int{},
		ChiShareAlpha: map[party.ID]*saferith.Int{}, ChiShareBeta: map[party.ID]*saferith.Int{}}
	r4 := &round4{round3: r3, DeltaShares: map[party.ID]curve.Scalar{}, BigDeltaShares: map[party.ID]curve.Point{}, Gamma: pt(60), ChiShare: sc(10)}
	r5 := &round5{round4: r4, SigmaShares: map[party.ID]curve.Scalar{}, Delta: sc(11), BigDelta: pt(61), BigR: pt(62), R: sc(12)}
	for i, id := range c05IDs {
		v := uint64(i + 1)
		r1.Pedersen[id], r1.ECDSA[id] = zk.Pedersen, pt(10+v)
		r2.K[id], r2.G[id] = cts[id], cts[id]
		r2.BigGammaShare[id] = pt(20 + v)
		r3.DeltaShareAlpha[id], r3.DeltaShareBeta[id], r3.ChiShareAlpha[id], r3.ChiShareBeta[id] = one, one, one, one
		r4.DeltaShares[id], r4.BigDeltaShares[id] = sc(30+v), pt(40+v)
		r5.SigmaShares[id] = sc(70 + v)
	}
	return r5
}

// H_C05_CmpSignContent: as H_C05_CmpPresignContent, for the message-handling functions of CMP signing rounds 2..5.
func H_C05_CmpSignContent() {
	r5 := c05State()
	r4 := r5.round4
	r3, r2 := r4.round3, r4.round3.round2
	type target struct {
		bcast  func() round.BroadcastContent
		p2p    func() round.Content
		storeB func(round.Message) error
		verify func(round.Message) error
		storeM func(round.Message) error
	}
	targets := []target{
		{r2.BroadcastContent, r2.MessageContent, r2.StoreBroadcastMessage, r2.VerifyMessage, r2.StoreMessage},
		{r3.BroadcastContent, r3.MessageContent, r3.StoreBroadcastMessage, r3.VerifyMessage, r3.StoreMessage},
		{r4.BroadcastContent, r4.MessageContent, r4.StoreBroadcastMessage, r4.VerifyMessage, r4.StoreMessage},
		{r5.BroadcastContent, nil, r5.StoreBroadcastMessage, nil, nil},
	}
	only := vsym.Param("target", -1)
	ti := vsym.Choose("target", len(targets))
	if only >= 0 && ti != only {
		vsym.Stop()
	}
	t := targets[ti]
	kind := vsym.Choose("kind", 2)
	if kind == 1 && t.p2p == nil {
		vsym.Stop()
	}
	panicked := vsym.ExpectPanic(func() {
		if kind == 0 {
			c := t.bcast()
			vsym.HavocInto(c, "bcast")
			_ = t.storeB(round.Message{From: "b", To: "", Broadcast: true, Content: c})
		} else {
			c := t.p2p()
			if c == nil {
				return
			}
			vsym.HavocInto(c, "p2p")
			m := round.Message{From: "b", To: "a", Content: c}
			if t.verify(m) == nil {
				_ = t.storeM(m)
			}
		}
	})
	vsym.Assert(!panicked, "handling an arbitrary incoming CMP sign message never panics")
	vsym.Reach("cmp-sign-content-checked")
}
