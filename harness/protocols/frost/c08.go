//go:build verif

package frost

import (
	"crypto/hmac"
	"crypto/sha512"

	"github.com/cronokirby/saferith"
	"github.com/taurusgroup/multi-party-sig/internal/vsym"
	"github.com/taurusgroup/multi-party-sig/pkg/math/curve"
	"github.com/taurusgroup/multi-party-sig/pkg/math/polynomial"
	"github.com/taurusgroup/multi-party-sig/pkg/party"
	"github.com/taurusgroup/multi-party-sig/pkg/protocol"
)

// cloneConfig copies a config by value.
func cloneConfig(c *Config) *Config {
	pts := map[party.ID]curve.Point{}
	for k, v := range c.VerificationShares.Points {
		pts[k] = v
	}
	return &Config{ID: c.ID, Threshold: c.Threshold, PrivateShare: curve.Secp256k1{}.NewScalar().Set(c.PrivateShare),
		PublicKey: c.PublicKey, ChainKey: c.ChainKey, VerificationShares: party.NewPointMap(pts)}
}

func fieldRefresh(in map[party.ID]*Config, ids []party.ID, sid string) map[party.ID]*Config {
	// the caller's configuration objects are handed to Refresh as they are: a refresh must not change them (the old
	// epoch stays what it was, e.g. for a retry when the refresh does not complete everywhere)
	cfgs := in
	hs := map[party.ID]protocol.Handler{}
	for _, id := range ids {
		h, err := protocol.NewMultiHandler(Refresh(cfgs[id], ids), []byte(sid))
		vsym.Assert(err == nil, "refresh starts")
		hs[id] = h
	}
	runAll(hs, ids)
	out := map[party.ID]*Config{}
	for _, id := range ids {
		r, err := hs[id].Result()
		vsym.Assert(err == nil, "all-honest refresh completes")
		out[id] = r.(*Config)
	}
	return out
}

func fieldSign(cfgs map[party.ID]*Config, signers []party.ID, msg []byte, sid string) (map[party.ID]protocol.Handler, curve.Point) {
	hs := map[party.ID]protocol.Handler{}
	for _, id := range signers {
		h, err := protocol.NewMultiHandler(Sign(cfgs[id], signers, msg), []byte(sid))
		vsym.Assert(err == nil, "sign starts")
		hs[id] = h
	}
	runAll(hs, signers)
	return hs, cfgs[signers[0]].PublicKey
}

// H_C08_FrostRefresh: keygen followed by `epochs` refreshes: the public key never changes, the refreshed material again
// satisfies all key generation conditions, every share changes, shares of different epochs do not combine to the key,
// signing with refreshed material succeeds and a signer holding pre-refresh material makes the session fail.
func H_C08_FrostRefresh() {
	n := vsym.Choose("n", vsym.Param("maxn", 3)) + 1
	if n < 2 {
		vsym.Stop()
	}
	ids := allIDs[:n]
	t := vsym.Choose("t", n)
	group := curve.Secp256k1{}
	epochs := vsym.Param("epochs", 1)
	cur := fieldKeygen(ids, t)
	sk0 := checkSharing(cur, ids, t, "keygen")
	pk0 := cur[ids[0]].PublicKey
	history := []map[party.ID]*Config{cur}
	for e := 1; e <= epochs; e++ {
		before := map[party.ID]*Config{}
		for _, id := range ids {
			before[id] = cloneConfig(cur[id])
		}
		next := fieldRefresh(cur, ids, "refresh")
		for _, id := range ids {
			vsym.Assert(cur[id].PrivateShare.Equal(before[id].PrivateShare), "refresh leaves the caller's pre-refresh configuration unchanged (secret share)")
			vsym.Assert(cur[id].PrivateShare.ActOnBase().Equal(cur[id].VerificationShares.Points[id]), "the pre-refresh configuration is still consistent after the refresh")
		}
		sk := checkSharing(next, ids, t, "after refresh")
		vsym.Assert(next[ids[0]].PublicKey.Equal(pk0), "refresh leaves the group public key unchanged")
		vsym.Assert(sk.Equal(sk0), "refresh leaves the shared secret unchanged")
		if t >= 1 {
			for _, id := range ids {
				vsym.Assert(!next[id].PrivateShare.Equal(cur[id].PrivateShare), "every party's share changes in a refresh")
			}
			// mixing epochs: one old share with t new ones does not reconstruct the key
			T := ids[:t+1]
			lag := polynomial.Lagrange(group, T)
			s := group.NewScalar()
			for k, j := range T {
				sh := next[j].PrivateShare
				if k == 0 {
					sh = cur[j].PrivateShare
				}
				s.Add(group.NewScalar().Set(lag[j]).Mul(sh))
			}
			vsym.Assert(!s.Equal(sk0), "shares from different epochs do not reconstruct the key")
		}
		history = append(history, next)
		cur = next
	}
	// signing with refreshed material
	signers := ids[:t+1]
	hs, Y := fieldSign(cur, signers, []byte("m"), "sign")
	for _, id := range signers {
		r, err := hs[id].Result()
		vsym.Assert(err == nil, "signing with refreshed material completes")
		vsym.Assert(r.(Signature).Verify(Y, []byte("m")), "signature from refreshed material verifies under the original key")
	}
	// a stale signer: first signer still uses the previous epoch
	if t >= 1 {
		mixed := map[party.ID]*Config{}
		for _, id := range signers {
			mixed[id] = cur[id]
		}
		mixed[signers[0]] = history[len(history)-2][signers[0]]
		hs2, _ := fieldSign(mixed, signers, []byte("m"), "sign2")
		for _, id := range signers {
			r, err := hs2[id].Result()
			vsym.Assert(err != nil || r == nil, "a session with a pre-refresh signer never yields a signature")
		}
	}
	vsym.Reach("frost-refresh-checked")
}

// H_C14_FrostDerive: BIP-32 non-hardened derivation on every party's config: child public key and chain code are what
// BIP-32 prescribes for (parent public key, chain key, index); the derived configs are again a consistent sharing of
// the child key; derivation can be repeated; signing with derived material succeeds.
func H_C14_FrostDerive() {
	n := vsym.Choose("n", vsym.Param("maxn", 3)) + 1
	if n < 2 {
		vsym.Stop()
	}
	ids := allIDs[:n]
	t := vsym.Choose("t", n)
	group := curve.Secp256k1{}
	cur := fieldKeygen(ids, t)
	depth := vsym.Param("depth", 2)
	for d := 0; d < depth; d++ {
		idx := vsym.Uint32([]string{"index0", "index1", "index2", "index3"}[d])
		vsym.Assume(idx < 1<<31)
		if vsym.Choose("fixed-index", 2) == 1 {
			// a concrete index whose four bytes all differ: a byte-order or truncation slip in ser32(i) shows as a
			// counterexample without symbolic index, which the native replay reproduces
			idx = 0x01020304
		}
		parent := cur[ids[0]]
		// BIP-32 CKDpub written out: I = HMAC-SHA512(key = chain code, data = serP(K) || ser32(i))
		mac := hmac.New(sha512.New, parent.ChainKey)
		ser, _ := parent.PublicKey.MarshalBinary()
		mac.Write(ser)
		mac.Write([]byte{byte(idx >> 24), byte(idx >> 16), byte(idx >> 8), byte(idx)})
		I := mac.Sum(nil)
		il := group.NewScalar().SetNat(new(saferith.Nat).SetBytes(I[:32]))
		wantKey := il.ActOnBase().Add(parent.PublicKey)
		wantChain := I[32:]
		next := map[party.ID]*Config{}
		for _, id := range ids {
			c, err := cur[id].DeriveChild(idx)
			vsym.Assert(err == nil, "derivation succeeds")
			vsym.Assert(c.PublicKey.Equal(wantKey), "child public key is point(I_L) + parent key at every party")
			vsym.Assert(vsym.BytesEq(c.ChainKey, wantChain), "child chain code is I_R at every party")
			next[id] = c
		}
		checkSharing(next, ids, t, "derived")
		cur = next
	}
	signers := ids[:t+1]
	hs, Y := fieldSign(cur, signers, []byte("m"), "sign")
	for _, id := range signers {
		r, err := hs[id].Result()
		vsym.Assert(err == nil, "signing with derived material completes")
		vsym.Assert(r.(Signature).Verify(Y, []byte("m")), "signature verifies under the derived key")
	}
	vsym.Reach("frost-derive-checked")
}
