//go:build verif

package frost

import (
	"crypto/sha256"

	"github.com/cronokirby/saferith"
	"github.com/taurusgroup/multi-party-sig/internal/vsym"
	"github.com/taurusgroup/multi-party-sig/pkg/math/curve"
	"github.com/taurusgroup/multi-party-sig/pkg/party"
	"github.com/taurusgroup/multi-party-sig/pkg/protocol"
	"github.com/taurusgroup/multi-party-sig/pkg/taproot"
)

func taggedHash(tag string, parts ...[]byte) []byte {
	th := sha256.Sum256([]byte(tag))
	h := sha256.New()
	h.Write(th[:])
	h.Write(th[:])
	for _, p := range parts {
		h.Write(p)
	}
	return h.Sum(nil)
}

// bip340Verify is the BIP-340 verification algorithm written out independently of pkg/taproot.
func bip340Verify(pk []byte, m []byte, sig []byte) bool {
	group := curve.Secp256k1{}
	if len(pk) != 32 || len(sig) != 64 {
		return false
	}
	P, err := group.LiftX(pk) // lift_x: even-Y point with that x
	if err != nil {
		return false
	}
	s := group.NewScalar()
	if err := s.UnmarshalBinary(sig[32:]); err != nil { // s >= n fails
		return false
	}
	e := group.NewScalar().SetNat(new(saferith.Nat).SetBytes(taggedHash("BIP0340/challenge", sig[:32], pk, m)))
	R := s.ActOnBase().Sub(e.Act(P))
	if R.IsIdentity() {
		return false
	}
	Rs := R.(*curve.Secp256k1Point)
	if !Rs.HasEvenY() {
		return false
	}
	return vsym.BytesEq(Rs.XBytes(), sig[:32])
}

// H_C01_FrostSignTaproot: FROST-Taproot keygen + signing, every n<=N, t, signer subset: each party's 64-byte
// signature passes the independently written BIP-340 verification for the x-only group key; all parties agree.
func H_C01_FrostSignTaproot() {
	n := vsym.Choose("n", vsym.Param("maxn", 3)) + 1
	if n < vsym.Param("minn", 2) {
		vsym.Stop()
	}
	ids := allIDs[:n]
	t := vsym.Choose("t", n)
	hs := map[party.ID]protocol.Handler{}
	for _, id := range ids {
		h, err := protocol.NewMultiHandler(KeygenTaproot(id, ids, t), []byte("sid"))
		vsym.Assume(err == nil)
		hs[id] = h
	}
	runAll(hs, ids)
	cfgs := map[party.ID]*TaprootConfig{}
	for _, id := range ids {
		r, err := hs[id].Result()
		vsym.Assert(err == nil, "all-honest taproot key generation completes")
		cfgs[id] = r.(*TaprootConfig)
	}
	var signers []party.ID
	for _, id := range ids {
		if vsym.Choose("signer", 2) == 1 {
			signers = append(signers, id)
		}
	}
	if len(signers) <= t {
		vsym.Stop()
	}
	msg := []byte("0123456789abcdef0123456789abcdef")
	sh := map[party.ID]protocol.Handler{}
	before := map[party.ID]curve.Scalar{}
	for _, id := range signers {
		before[id] = curve.Secp256k1{}.NewScalar().Set(cfgs[id].PrivateShare)
		h, err := protocol.NewMultiHandler(SignTaproot(cfgs[id], signers, msg), []byte("sign"))
		vsym.Assert(err == nil, "sign starts")
		sh[id] = h
	}
	runAll(sh, signers)
	for _, id := range signers {
		vsym.Assert(cfgs[id].PrivateShare.Equal(before[id]), "signing leaves the party's secret share unchanged")
	}
	var first []byte
	for _, id := range signers {
		r, err := sh[id].Result()
		vsym.Assert(err == nil, "all-honest taproot signing session completes")
		sig := []byte(r.(taproot.Signature))
		vsym.Assert(bip340Verify(cfgs[ids[0]].PublicKey, msg, sig), "signature passes BIP-340 verification under the key generation public key")
		if first == nil {
			first = sig
		}
		vsym.Assert(vsym.BytesEq(first, sig), "all parties return the same signature")
	}
	vsym.Reach("frost-taproot-sign-checked")
}
