//go:build verif

package frost

import (
	"github.com/taurusgroup/multi-party-sig/internal/vsym"
	"github.com/taurusgroup/multi-party-sig/pkg/math/curve"
	"github.com/taurusgroup/multi-party-sig/pkg/party"
	"github.com/taurusgroup/multi-party-sig/pkg/protocol"
)

var c20Universe = []party.ID{"a", "b", "c", "z", ""}

// symList draws a list of 0..max identifiers from the universe (any order, duplicates possible).
func symList(name string, max int) []party.ID {
	n := vsym.Choose(name+".n", max+1)
	out := make([]party.ID, n)
	for i := range out {
		out[i] = c20Universe[vsym.Choose(name+".id", len(c20Universe))]
	}
	return out
}

func listFacts(l []party.ID, self party.ID, holders map[party.ID]bool) (dup, hasSelf, foreign, empty bool) {
	seen := map[party.ID]bool{}
	for _, id := range l {
		if seen[id] {
			dup = true
		}
		seen[id] = true
		if id == self {
			hasSelf = true
		}
		if holders != nil && !holders[id] {
			foreign = true
		}
		if id == "" {
			empty = true
		}
	}
	return
}

// startOK runs a start function through the real handler constructor; a panic is an engine-level violation.
func startOK(start protocol.StartFunc) (*protocol.MultiHandler, bool) {
	h, err := protocol.NewMultiHandler(start, []byte("sid"))
	return h, err == nil
}

// H_C20_FrostKeygen: Keygen / KeygenTaproot with arbitrary threshold, participant list and own identifier.
func H_C20_FrostKeygen() {
	parts := symList("parts", 3)
	self := c20Universe[vsym.Choose("self", len(c20Universe))]
	t := vsym.Int("t", -2, 5)
	taproot := vsym.Choose("taproot", 2) == 1
	start := Keygen(curve.Secp256k1{}, self, parts, t)
	if taproot {
		start = KeygenTaproot(self, parts, t)
	}
	h, ok := startOK(start)
	dup, hasSelf, _, empty := listFacts(parts, self, nil)
	bad := dup || !hasSelf || len(parts) == 0 || empty
	vsym.Assert(vsym.Implies(vsym.Or(bad, vsym.Or(t < 0, t > len(parts)-1)), !ok), "invalid keygen parameters are refused at handler construction")
	if !bad {
		vsym.Assert(vsym.Implies(vsym.And(t >= 0, t <= len(parts)-1), ok), "valid keygen parameters are accepted")
	}
	_ = h
	vsym.Reach("frost-keygen-start-checked")
}

// H_C20_FrostSign: Sign / SignTaproot / Refresh with arbitrary signer lists, messages and key material.
func H_C20_FrostSign() {
	cfgs := frostConfigs() // valid 1-of-3 sharing, holders a, b, c
	holders := map[party.ID]bool{"a": true, "b": true, "c": true}
	signers := symList("signers", 3)
	var msg []byte
	switch vsym.Choose("msg", 3) {
	case 1:
		msg = []byte{}
	case 2:
		msg = []byte("message hash")
	}
	var cfg *Config
	cfgKind := vsym.Choose("config", 3)
	switch cfgKind {
	case 0:
		cfg = cfgs["a"]
	case 1:
		cfg = nil
	case 2:
		cfg = &Config{} // zero-valued key material
	}
	var h *protocol.MultiHandler
	var ok bool
	which := vsym.Choose("func", 2)
	if which == 0 {
		h, ok = startOK(Sign(cfg, signers, msg))
	} else {
		h, ok = startOK(Refresh(cfg, signers))
	}
	dup, hasSelf, foreign, _ := listFacts(signers, "a", holders)
	bad := cfgKind != 0 || dup || !hasSelf || foreign || len(signers) <= 1 // threshold 1: more than one signer
	if which == 0 {
		bad = bad || len(msg) == 0
	} else {
		bad = cfgKind != 0 || dup || !hasSelf || len(signers) <= 1 || foreign || len(signers) != 3
	}
	vsym.Assert(vsym.Implies(bad, !ok), "invalid sign/refresh parameters are refused at handler construction")
	if !bad {
		vsym.Assert(ok, "valid sign/refresh parameters are accepted")
	}
	_ = h
	vsym.Reach("frost-sign-start-checked")
}

// H_C20_FrostSignTaproot: SignTaproot with a signer set that is too small / foreign / duplicated.
func H_C20_FrostSignTaproot() {
	ids := []party.ID{"a", "b", "c"}
	hs := map[party.ID]protocol.Handler{}
	for _, id := range ids {
		h, err := protocol.NewMultiHandler(KeygenTaproot(id, ids, 2), []byte("sid"))
		vsym.Assume(err == nil)
		hs[id] = h
	}
	runAll(hs, ids)
	r, err := hs["a"].Result()
	vsym.Assume(err == nil)
	cfg := r.(*TaprootConfig)
	signers := symList("signers", 3)
	_, ok := startOK(SignTaproot(cfg, signers, []byte("0123456789abcdef0123456789abcdef")))
	dup, hasSelf, foreign, _ := listFacts(signers, "a", map[party.ID]bool{"a": true, "b": true, "c": true})
	bad := dup || !hasSelf || foreign || len(signers) <= 2
	vsym.Assert(vsym.Implies(bad, !ok), "invalid taproot signer set is refused at handler construction")
	if !bad {
		vsym.Assert(ok, "valid taproot signer set is accepted")
	}
	vsym.Reach("frost-taproot-start-checked")
}
