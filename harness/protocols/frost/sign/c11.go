//go:build verif

package sign

import (
	"crypto/rand"
	"io"

	"github.com/taurusgroup/multi-party-sig/internal/round"
	"github.com/taurusgroup/multi-party-sig/internal/vsym"
	"github.com/taurusgroup/multi-party-sig/pkg/math/curve"
	"github.com/taurusgroup/multi-party-sig/pkg/party"
)

type fixedReader struct{ b []byte }

func (f fixedReader) Read(p []byte) (int, error) { return copy(p, f.b), nil }

type nonceCtx struct {
	msg     []byte
	sid     []byte
	signers []party.ID
	taproot bool
	share   []byte
	rnd     []byte
}

func drawCtx(p string, vary int, base *nonceCtx) nonceCtx {
	c := *base
	if vary&1 != 0 {
		c.msg = vsym.Bytes(p+".msg", 1, vsym.Param("msglen", 3))
	}
	if vary&2 != 0 {
		c.sid = vsym.Bytes(p+".sid", 0, 2)
	}
	if vary&4 != 0 {
		if vsym.Choose(p+".signers", 2) == 1 {
			c.signers = []party.ID{"a", "b", "c"}
		} else {
			c.signers = []party.ID{"a", "b"}
		}
	}
	if vary&8 != 0 {
		c.taproot = vsym.Choose(p+".taproot", 2) == 1
	}
	if vary&16 != 0 {
		c.share = vsym.Bytes(p+".share", 32, 32)
	}
	c.rnd = vsym.Bytes(p+".rnd", 32, 32)
	return c
}

// runRound1 executes the real first signing round and returns the two nonces (as their canonical bytes) and the
// published commitments.
func runRound1(c nonceCtx) (d, e, D, E []byte) {
	group := curve.Secp256k1{}
	share := group.NewScalar()
	vsym.Assume(share.UnmarshalBinary(c.share) == nil)
	info := round.Info{FinalRoundNumber: protocolRounds, SelfID: "a", PartyIDs: c.signers, Threshold: 1, Group: group, ProtocolID: protocolID}
	if c.taproot {
		info.ProtocolID = protocolIDTaproot
	}
	helper, err := round.NewSession(info, c.sid, nil)
	vsym.Assume(err == nil)
	r := &round1{Helper: helper, taproot: c.taproot, M: c.msg, Y: group.NewBasePoint(), YShares: map[party.ID]curve.Point{}, s_i: share}
	old := rand.Reader
	rand.Reader = io.Reader(fixedReader{c.rnd})
	out := make(chan *round.Message, 4)
	next, err := r.Finalize(out)
	rand.Reader = old
	vsym.Assume(err == nil)
	r2 := next.(*round2)
	d, _ = r2.d_i.MarshalBinary()
	e, _ = r2.e_i.MarshalBinary()
	D, _ = r2.D["a"].MarshalBinary()
	E, _ = r2.E["a"].MarshalBinary()
	return
}

// H_C11_FrostNonces: two executions of the real first signing round. If the nonces (or the published commitments)
// coincide, then message, session id, signer set, protocol variant, secret share AND the 32 random bytes all coincide.
// Hence: with a stuck random source any difference in the context changes the nonces, and with a working random
// source the nonces differ even for identical inputs.
func H_C11_FrostNonces() {
	vary := vsym.Param("vary", 31)
	base := nonceCtx{msg: []byte("m"), sid: []byte("s"), signers: []party.ID{"a", "b"}, share: vsym.Bytes("share", 32, 32)}
	c1 := drawCtx("x", vary, &base)
	c2 := drawCtx("y", vary, &base)
	d1, e1, D1, E1 := runRound1(c1)
	d2, e2, D2, E2 := runRound1(c2)
	same := vsym.And(vsym.BytesEq(c1.msg, c2.msg), vsym.BytesEq(c1.sid, c2.sid))
	same = vsym.And(same, vsym.And(len(c1.signers) == len(c2.signers), c1.taproot == c2.taproot))
	same = vsym.And(same, vsym.And(vsym.BytesEq(c1.share, c2.share), vsym.BytesEq(c1.rnd, c2.rnd)))
	vsym.Assert(vsym.Implies(vsym.BytesEq(d1, d2), same), "equal first nonce implies equal context and equal randomness")
	vsym.Assert(vsym.Implies(vsym.BytesEq(e1, e2), same), "equal second nonce implies equal context and equal randomness")
	vsym.Assert(vsym.Implies(vsym.BytesEq(D1[1:], D2[1:]), same), "equal published commitment D implies equal context and equal randomness")
	vsym.Assert(vsym.Implies(vsym.BytesEq(E1[1:], E2[1:]), same), "equal published commitment E implies equal context and equal randomness")
	vsym.Assert(vsym.Not(vsym.BytesEq(d1, e1)), "the two nonces of one signer differ")
	vsym.Reach("frost-nonces-compared")
}
