//go:build verif

package sign

import (
	"github.com/taurusgroup/multi-party-sig/internal/vsym"
	"github.com/taurusgroup/multi-party-sig/pkg/hash"
	"github.com/taurusgroup/multi-party-sig/pkg/math/curve"
	"github.com/taurusgroup/multi-party-sig/pkg/math/sample"
	"github.com/taurusgroup/multi-party-sig/pkg/party"
	"github.com/taurusgroup/multi-party-sig/pkg/protocol"
	"github.com/taurusgroup/multi-party-sig/protocols/frost/keygen"
)

var allIDs = []party.ID{"a", "b", "c", "d", "e", "f"}

func drainH(h protocol.Handler) []*protocol.Message {
	var out []*protocol.Message
	ch := h.Listen()
	for {
		select {
		case m, ok := <-ch:
			if !ok {
				return out
			}
			out = append(out, m)
		default:
			return out
		}
	}
}

func runAll(hs map[party.ID]protocol.Handler, ids []party.ID) {
	for step := 0; step < 20; step++ {
		var batch []*protocol.Message
		for _, id := range ids {
			batch = append(batch, drainH(hs[id])...)
		}
		if len(batch) == 0 {
			return
		}
		for _, m := range batch {
			for _, id := range ids {
				if hs[id].CanAccept(m) {
					hs[id].Accept(m)
				}
			}
		}
	}
}

func fieldKeygen(ids []party.ID, t int, taproot bool) map[party.ID]interface{} {
	hs := map[party.ID]protocol.Handler{}
	for _, id := range ids {
		h, err := protocol.NewMultiHandler(keygen.StartKeygenCommon(taproot, curve.Secp256k1{}, ids, t, id, nil, nil, nil), []byte("sid"))
		vsym.Assume(err == nil)
		hs[id] = h
	}
	runAll(hs, ids)
	out := map[party.ID]interface{}{}
	for _, id := range ids {
		r, err := hs[id].Result()
		vsym.Assert(err == nil, "all-honest key generation completes")
		out[id] = r
	}
	return out
}

// chooseSigners picks an arbitrary subset of ids with more than t members (every subset is explored).
func chooseSigners(ids []party.ID, t int) []party.ID {
	var s []party.ID
	for _, id := range ids {
		if vsym.Choose("signer", 2) == 1 {
			s = append(s, id)
		}
	}
	if len(s) <= t {
		vsym.Stop()
	}
	return s
}

// H_C01_FrostSign: fresh key material (real keygen), every n<=N, t, signer subset S with |S|>t:
// every party's signature satisfies the textbook Schnorr verification z*G = R + c*Y with c re-derived from
// (R, Y, m), all parties return the same signature, and the all-honest session completes.
func H_C01_FrostSign() {
	n := vsym.Choose("n", vsym.Param("maxn", 3)) + 1
	if n < vsym.Param("minn", 2) {
		vsym.Stop()
	}
	ids := allIDs[:n]
	t := vsym.Choose("t", n)
	cfgs := fieldKeygen(ids, t, false)
	signers := chooseSigners(ids, t)
	msg := []byte("message hash")
	hs := map[party.ID]protocol.Handler{}
	before := map[party.ID]curve.Scalar{}
	for _, id := range signers {
		before[id] = curve.Secp256k1{}.NewScalar().Set(cfgs[id].(*keygen.Config).PrivateShare)
		h, err := protocol.NewMultiHandler(StartSignCommon(false, cfgs[id].(*keygen.Config), signers, msg), []byte("sign-sid"))
		vsym.Assert(err == nil, "sign starts")
		hs[id] = h
	}
	runAll(hs, signers)
	Y := cfgs[ids[0]].(*keygen.Config).PublicKey
	for _, id := range signers {
		// the long-lived key material a session was started with is an input, not scratch space: the next session
		// with the same configuration must find it unchanged
		c := cfgs[id].(*keygen.Config)
		vsym.Assert(c.PrivateShare.Equal(before[id]), "signing leaves the party's secret share unchanged")
		vsym.Assert(c.PrivateShare.ActOnBase().Equal(c.VerificationShares.Points[id]), "after signing the share still matches the public table")
	}
	var first *Signature
	for _, id := range signers {
		r, err := hs[id].Result()
		vsym.Assert(err == nil, "all-honest signing session with more than t signers completes")
		sig := r.(Signature)
		// independent verifier
		ch := hash.New()
		_ = ch.WriteAny(sig.R, Y, messageHash(msg))
		c := sample.Scalar(ch.Digest(), curve.Secp256k1{})
		vsym.Assert(sig.z.ActOnBase().Equal(c.Act(Y).Add(sig.R)), "signature satisfies z*G = R + c*Y under the key generation public key")
		if first == nil {
			first = &sig
		}
		vsym.Assert(sig.R.Equal(first.R) && sig.z.Equal(first.z), "all parties return the same signature")
	}
	vsym.Reach("frost-sign-checked")
}
