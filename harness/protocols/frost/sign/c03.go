//go:build verif

package sign

import (
	"crypto/rand"

	"github.com/fxamacker/cbor/v2"
	"github.com/taurusgroup/multi-party-sig/internal/vsym"
	"github.com/taurusgroup/multi-party-sig/pkg/hash"
	"github.com/taurusgroup/multi-party-sig/pkg/math/curve"
	"github.com/taurusgroup/multi-party-sig/pkg/math/sample"
	"github.com/taurusgroup/multi-party-sig/pkg/party"
	"github.com/taurusgroup/multi-party-sig/pkg/protocol"
	"github.com/taurusgroup/multi-party-sig/protocols/frost/keygen"
)

// H_C03_FrostSignTamper: signer c alters one field of one of its signing messages (fresh value, value copied from
// another signer, or swapped fields); a and b are honest. An honest party that finishes returns a signature that
// satisfies the textbook verification for the agreed message and key.
func H_C03_FrostSignTamper() {
	group := curve.Secp256k1{}
	ids := []party.ID{"a", "b", "c"}
	t := vsym.Choose("t", 2) + 1
	cfgs := fieldKeygen(ids, t, false)
	msg := []byte("message hash")
	hs := map[party.ID]*protocol.MultiHandler{}
	for _, id := range ids {
		h, err := protocol.NewMultiHandler(StartSignCommon(false, cfgs[id].(*keygen.Config), ids, msg), []byte("sign-sid"))
		vsym.Assume(err == nil)
		hs[id] = h
	}
	tamper := vsym.Choose("tamper", 6)
	victimOnly := vsym.Choose("scope", 2) == 1
	var bR2, bR3 *protocol.Message
	for step := 0; step < 10; step++ {
		var batch []*protocol.Message
		for _, id := range ids {
			batch = append(batch, drainH(hs[id])...)
		}
		if len(batch) == 0 {
			break
		}
		for _, m := range batch {
			if m.From == "b" && m.RoundNumber == 2 {
				bR2 = m
			}
			if m.From == "b" && m.RoundNumber == 3 {
				bR3 = m
			}
		}
		for _, m := range batch {
			out := map[party.ID]*protocol.Message{"a": m, "b": m, "c": m}
			var bad *protocol.Message
			if m.From == "c" && m.RoundNumber == 2 && tamper <= 3 {
				body := &broadcast2{D_i: group.NewPoint(), E_i: group.NewPoint()}
				vsym.Assume(cbor.Unmarshal(m.Data, body) == nil)
				switch tamper {
				case 0:
					body.D_i = sample.Scalar(rand.Reader, group).ActOnBase()
				case 1:
					body.E_i = sample.Scalar(rand.Reader, group).ActOnBase()
				case 2:
					body.D_i, body.E_i = body.E_i, body.D_i
				case 3: // b's commitments replayed under c's name
					if bR2 == nil {
						vsym.Stop()
					}
					vsym.Assume(cbor.Unmarshal(bR2.Data, body) == nil)
				}
				data, err := cbor.Marshal(body)
				vsym.Assume(err == nil)
				mm := *m
				mm.Data = data
				bad = &mm
			}
			if m.From == "c" && m.RoundNumber == 3 && tamper >= 4 {
				body := &broadcast3{Z_i: group.NewScalar()}
				vsym.Assume(cbor.Unmarshal(m.Data, body) == nil)
				if tamper == 4 {
					body.Z_i = sample.Scalar(rand.Reader, group)
				} else {
					if bR3 == nil {
						vsym.Stop()
					}
					vsym.Assume(cbor.Unmarshal(bR3.Data, body) == nil)
				}
				data, err := cbor.Marshal(body)
				vsym.Assume(err == nil)
				mm := *m
				mm.Data = data
				bad = &mm
			}
			if bad != nil {
				out["a"] = bad
				if !victimOnly {
					out["b"] = bad
				}
			}
			if m.From == "c" && m.RoundNumber >= 3 {
				for _, id := range []party.ID{"a", "b"} {
					if exp := hs[id].VerifBroadcastHash(m.RoundNumber - 1); exp != nil {
						mm := *out[id]
						mm.BroadcastVerification = exp
						out[id] = &mm
					}
				}
			}
			for _, id := range ids {
				if hs[id].CanAccept(out[id]) {
					hs[id].Accept(out[id])
				}
			}
		}
	}
	Y := cfgs["a"].(*keygen.Config).PublicKey
	finished := 0
	for _, id := range []party.ID{"a", "b"} {
		r, err := hs[id].Result()
		if err != nil || r == nil {
			continue
		}
		finished++
		sig := r.(Signature)
		ch := hash.New()
		_ = ch.WriteAny(sig.R, Y, messageHash(msg))
		c := sample.Scalar(ch.Digest(), group)
		vsym.Assert(sig.z.ActOnBase().Equal(c.Act(Y).Add(sig.R)), "an honest party that finishes holds a valid signature for the agreed message and key")
	}
	if finished > 0 {
		vsym.Reach("some-honest-signer-finished")
	} else {
		vsym.Reach("no-honest-signer-finished")
	}
}
