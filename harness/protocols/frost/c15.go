//go:build verif

package frost

import (
	"github.com/fxamacker/cbor/v2"
	"github.com/taurusgroup/multi-party-sig/internal/vsym"
	"github.com/taurusgroup/multi-party-sig/pkg/math/curve"
	"github.com/taurusgroup/multi-party-sig/pkg/party"
)

// H_C15_FrostRoundTrip: every party serialises its key generation result with the documented encoder and restores it
// into EmptyConfig; the restored object equals the original field by field (incl. the hand-written PointMap codec) and
// the restored configs of all parties work together in a signing session whose signature verifies.
func H_C15_FrostRoundTrip() {
	n := vsym.Choose("n", vsym.Param("maxn", 3)) + 1
	if n < 2 {
		vsym.Stop()
	}
	ids := allIDs[:n]
	t := vsym.Choose("t", n)
	cfgs := fieldKeygen(ids, t)
	restored := map[party.ID]*Config{}
	for _, id := range ids {
		data, err := cbor.Marshal(cfgs[id])
		vsym.Assert(err == nil, "config serialises")
		c := EmptyConfig(curve.Secp256k1{})
		vsym.Assert(cbor.Unmarshal(data, c) == nil, "config restores")
		o := cfgs[id]
		vsym.Assert(c.ID == o.ID && c.Threshold == o.Threshold, "id and threshold restored")
		vsym.Assert(c.PrivateShare.Equal(o.PrivateShare), "secret share restored")
		vsym.Assert(c.PublicKey.Equal(o.PublicKey), "public key restored")
		vsym.Assert(vsym.BytesEq(c.ChainKey, o.ChainKey), "chain key restored")
		vsym.Assert(len(c.VerificationShares.Points) == len(o.VerificationShares.Points), "table size restored")
		for _, j := range ids {
			vsym.Assert(c.VerificationShares.Points[j].Equal(o.VerificationShares.Points[j]), "table entries restored")
		}
		restored[id] = c
	}
	checkSharing(restored, ids, t, "restored")
	signers := ids[:t+1]
	hs, Y := fieldSign(restored, signers, []byte("m"), "sign")
	for _, id := range signers {
		r, err := hs[id].Result()
		vsym.Assert(err == nil, "signing with restored material completes")
		vsym.Assert(r.(Signature).Verify(Y, []byte("m")), "signature from restored material verifies")
	}
	vsym.Reach("frost-roundtrip-checked")
}
