//go:build verif

package frost

import (
	"github.com/cronokirby/saferith"
	"github.com/taurusgroup/multi-party-sig/internal/round"
	"github.com/taurusgroup/multi-party-sig/internal/vsym"
	"github.com/taurusgroup/multi-party-sig/pkg/math/curve"
	"github.com/taurusgroup/multi-party-sig/pkg/party"
	"github.com/taurusgroup/multi-party-sig/pkg/protocol"
)

var c05IDs = []party.ID{"a", "b", "c"}

// tamperRun runs an honest session in lock step (concrete randomness) and replaces ONE message from "b" to the victim
// "a" — of round `target`, broadcast or point-to-point — by an arbitrary CBOR document for the content type the victim
// expects. Obligation (engine level): no panic, no unbounded allocation, no blocking anywhere in the victim.
func tamperRun(hs map[party.ID]*protocol.MultiHandler, ids []party.ID, rounds int) {
	target := round.Number(vsym.Choose("round", rounds-1) + 2)
	wantB := vsym.Choose("kind", 2) == 1
	first := true
	if vsym.Param("positions", 2) == 2 {
		first = vsym.Choose("position", 2) == 0
	}
	done := false
	for step := 0; step < 12; step++ {
		var batch []*protocol.Message
		for _, id := range ids {
			batch = append(batch, drainH(hs[id])...)
		}
		if len(batch) == 0 {
			break
		}
		var bad *protocol.Message
		var rest []*protocol.Message
		for _, m := range batch {
			if !done && m.From == "b" && m.RoundNumber == target && m.Broadcast == wantB && m.IsFor("a") {
				r := hs["a"].VerifCurrentRound()
				var content round.Content
				if wantB {
					if br, ok := r.(round.BroadcastRound); ok {
						content = br.BroadcastContent()
					}
				} else {
					content = r.MessageContent()
				}
				if content != nil && r.Number() == target {
					mm := *m
					mm.Data = vsym.CborFor(content, "m")
					bad = &mm
					done = true
					// the honest copy still goes to the other parties
					for _, id := range ids {
						if id != "a" && hs[id].CanAccept(m) {
							hs[id].Accept(m)
						}
					}
					continue
				}
			}
			rest = append(rest, m)
		}
		if bad != nil && first {
			hs["a"].Accept(bad)
		}
		for _, m := range rest {
			for _, id := range ids {
				if hs[id].CanAccept(m) {
					hs[id].Accept(m)
				}
			}
		}
		if bad != nil && !first {
			hs["a"].Accept(bad)
		}
	}
	if !done {
		vsym.Stop() // no such message in this protocol
	}
	res, err := hs["a"].Result()
	vsym.Assert(!(res != nil && err != nil), "value xor error")
	vsym.Reach("tampered-delivered")
}

func frostKeygenHandlers(taproot bool) map[party.ID]*protocol.MultiHandler {
	hs := map[party.ID]*protocol.MultiHandler{}
	for _, id := range c05IDs {
		start := Keygen(curve.Secp256k1{}, id, c05IDs, 1)
		if taproot {
			start = KeygenTaproot(id, c05IDs, 1)
		}
		h, err := protocol.NewMultiHandler(start, []byte("sid"))
		vsym.Assume(err == nil)
		hs[id] = h
	}
	return hs
}

// H_C05_FrostKeygen: arbitrary content in any FROST key generation message.
func H_C05_FrostKeygen() {
	tamperRun(frostKeygenHandlers(vsym.Param("taproot", 0) == 1), c05IDs, 3)
}

// frostConfigs builds a consistent 1-of-3 threshold sharing directly (f(x) = 7 + 11x), so that signing harnesses need
// not re-run key generation on every path.
func frostConfigs() map[party.ID]*Config {
	group := curve.Secp256k1{}
	small := func(v uint64) curve.Scalar { return group.NewScalar().SetNat(new(saferith.Nat).SetUint64(v)) }
	secret, a1 := small(7), small(11)
	shares := map[party.ID]curve.Scalar{}
	points := map[party.ID]curve.Point{}
	for _, id := range c05IDs {
		x := id.Scalar(group)
		sh := group.NewScalar().Set(a1).Mul(x).Add(secret)
		shares[id] = sh
		points[id] = sh.ActOnBase()
	}
	out := map[party.ID]*Config{}
	for _, id := range c05IDs {
		vs := map[party.ID]curve.Point{}
		for k, v := range points {
			vs[k] = v
		}
		out[id] = &Config{ID: id, Threshold: 1, PrivateShare: shares[id], PublicKey: secret.ActOnBase(),
			ChainKey: []byte("0123456789abcdef0123456789abcdef"), VerificationShares: party.NewPointMap(vs)}
	}
	return out
}

// H_C05_FrostSign: arbitrary content in any FROST signing message.
func H_C05_FrostSign() {
	cfgs := frostConfigs()
	hs := map[party.ID]*protocol.MultiHandler{}
	for _, id := range c05IDs {
		h, err := protocol.NewMultiHandler(Sign(cfgs[id], c05IDs, []byte("msg")), []byte("sid2"))
		vsym.Assume(err == nil)
		hs[id] = h
	}
	tamperRun(hs, c05IDs, 3)
}
