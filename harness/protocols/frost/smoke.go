//go:build verif

package frost

import (
	"github.com/taurusgroup/multi-party-sig/internal/vsym"
	"github.com/taurusgroup/multi-party-sig/pkg/math/curve"
	"github.com/taurusgroup/multi-party-sig/pkg/party"
	"github.com/taurusgroup/multi-party-sig/pkg/protocol"
)

func drainH(h protocol.Handler) []*protocol.Message {
	var out []*protocol.Message
	ch := h.Listen()
	for {
		select {
		case m, ok := <-ch:
			if !ok {
				return out
			}
			out = append(out, m)
		default:
			return out
		}
	}
}

func runAll(hs map[party.ID]protocol.Handler, ids []party.ID) {
	for step := 0; step < 20; step++ {
		var batch []*protocol.Message
		for _, id := range ids {
			batch = append(batch, drainH(hs[id])...)
		}
		if len(batch) == 0 {
			return
		}
		for _, m := range batch {
			for _, id := range ids {
				if hs[id].CanAccept(m) {
					hs[id].Accept(m)
				}
			}
		}
	}
}

// H_FrostKeygenConcrete: engine smoke test — concrete FROST keygen through the real handlers.
func H_FrostKeygenConcrete() {
	ids := []party.ID{"a", "b", "c"}
	hs := map[party.ID]protocol.Handler{}
	for _, id := range ids {
		h, err := protocol.NewMultiHandler(Keygen(curve.Secp256k1{}, id, ids, 1), []byte("sid"))
		vsym.Assert(err == nil, "start")
		hs[id] = h
	}
	runAll(hs, ids)
	var pk curve.Point
	for _, id := range ids {
		r, err := hs[id].Result()
		vsym.Assert(err == nil, "keygen completes")
		cfg := r.(*Config)
		if pk == nil {
			pk = cfg.PublicKey
		}
		vsym.Assert(cfg.PublicKey.Equal(pk), "same public key")
	}
	vsym.Reach("keygen-done")
}
