//go:build verif

package frost

import (
	"crypto/hmac"
	"crypto/sha512"

	"github.com/cronokirby/saferith"
	"github.com/taurusgroup/multi-party-sig/internal/vsym"
	"github.com/taurusgroup/multi-party-sig/pkg/math/curve"
	"github.com/taurusgroup/multi-party-sig/pkg/party"
	"github.com/taurusgroup/multi-party-sig/pkg/protocol"
	"github.com/taurusgroup/multi-party-sig/pkg/taproot"
)

// H_C14_FrostTaprootDerive (field mode): BIP-32 derivation on FROST-Taproot material. The parent key is read as the
// compressed point 0x02 || x; at a symbolic non-hardened index every party's child x-only key is x(point(I_L) + K), the
// chain code is I_R, and the derived shares are a consistent sharing of the secret whose public key is the EVEN-Y point
// with that x (the renormalisation negates every share and table entry when point(I_L) + K has odd Y); derivation is
// repeated on derived material and signing with it passes the BIP-340 verifier written out in the harness.
func H_C14_FrostTaprootDerive() {
	n := vsym.Choose("n", vsym.Param("maxn", 3)) + 1
	if n < 2 {
		vsym.Stop()
	}
	ids := allIDs[:n]
	t := vsym.Choose("t", n)
	group := curve.Secp256k1{}
	hs := map[party.ID]protocol.Handler{}
	for _, id := range ids {
		h, err := protocol.NewMultiHandler(KeygenTaproot(id, ids, t), []byte("sid"))
		vsym.Assert(err == nil, "keygen starts")
		hs[id] = h
	}
	runAll(hs, ids)
	cur := map[party.ID]*TaprootConfig{}
	for _, id := range ids {
		r, err := hs[id].Result()
		vsym.Assert(err == nil, "all-honest taproot key generation completes")
		cur[id] = r.(*TaprootConfig)
	}
	depth := vsym.Param("depth", 2)
	for d := 0; d < depth; d++ {
		idx := vsym.Uint32([]string{"index0", "index1", "index2", "index3"}[d])
		vsym.Assume(idx < 1<<31)
		if vsym.Choose("fixed-index", 2) == 1 {
			// a concrete index whose four bytes all differ: a byte-order or truncation slip in ser32(i) shows as a
			// counterexample without symbolic index, which the native replay reproduces
			idx = 0x01020304
		}
		parent := cur[ids[0]]
		P, err := group.LiftX(parent.PublicKey)
		vsym.Assert(err == nil, "parent key lifts")
		mac := hmac.New(sha512.New, parent.ChainKey)
		mac.Write([]byte{2})
		mac.Write(parent.PublicKey)
		mac.Write([]byte{byte(idx >> 24), byte(idx >> 16), byte(idx >> 8), byte(idx)})
		I := mac.Sum(nil)
		il := group.NewScalar().SetNat(new(saferith.Nat).SetBytes(I[:32]))
		child := il.ActOnBase().Add(P).(*curve.Secp256k1Point)
		wantX := child.XBytes()
		next := map[party.ID]*TaprootConfig{}
		generic := map[party.ID]*Config{}
		for _, id := range ids {
			c, err := cur[id].DeriveChild(idx)
			vsym.Assert(err == nil, "derivation succeeds")
			vsym.Assert(vsym.BytesEq(c.PublicKey, wantX), "child x-only key is x(point(I_L) + parent key) at every party")
			vsym.Assert(vsym.BytesEq(c.ChainKey, I[32:]), "child chain code is I_R at every party")
			next[id] = c
			generic[id] = taprootAsGeneric(c)
		}
		checkSharing(generic, ids, t, "derived taproot")
		cur = next
	}
	signers := ids[:t+1]
	msg := []byte("0123456789abcdef0123456789abcdef")
	sh := map[party.ID]protocol.Handler{}
	for _, id := range signers {
		h, err := protocol.NewMultiHandler(SignTaproot(cur[id], signers, msg), []byte("sign"))
		vsym.Assert(err == nil, "sign starts")
		sh[id] = h
	}
	runAll(sh, signers)
	for _, id := range signers {
		r, err := sh[id].Result()
		vsym.Assert(err == nil, "signing with derived taproot material completes")
		vsym.Assert(bip340Verify(cur[ids[0]].PublicKey, msg, []byte(r.(taproot.Signature))), "signature passes BIP-340 verification under the derived key")
	}
	vsym.Reach("frost-taproot-derive-checked")
}

// H_C08_FrostRefreshTaproot (field mode): FROST-Taproot key generation followed by a refresh: the x-only public key is
// unchanged, the refreshed material is again a consistent sharing of the even-Y key, every share changes, the caller's
// pre-refresh configuration is left as it was, and signing with refreshed material passes the BIP-340 verifier.
func H_C08_FrostRefreshTaproot() {
	n := vsym.Choose("n", vsym.Param("maxn", 3)) + 1
	if n < 2 {
		vsym.Stop()
	}
	ids := allIDs[:n]
	t := vsym.Choose("t", n)
	group := curve.Secp256k1{}
	run := func(start func(id party.ID) protocol.StartFunc, sid string) map[party.ID]*TaprootConfig {
		hs := map[party.ID]protocol.Handler{}
		for _, id := range ids {
			h, err := protocol.NewMultiHandler(start(id), []byte(sid))
			vsym.Assert(err == nil, "session starts")
			hs[id] = h
		}
		runAll(hs, ids)
		out := map[party.ID]*TaprootConfig{}
		for _, id := range ids {
			r, err := hs[id].Result()
			vsym.Assert(err == nil, "all-honest session completes")
			out[id] = r.(*TaprootConfig)
		}
		return out
	}
	cur := run(func(id party.ID) protocol.StartFunc { return KeygenTaproot(id, ids, t) }, "keygen")
	before := map[party.ID]curve.Scalar{}
	oldGeneric := map[party.ID]*Config{}
	for _, id := range ids {
		before[id] = group.NewScalar().Set(cur[id].PrivateShare)
		oldGeneric[id] = taprootAsGeneric(cur[id])
	}
	sk0 := checkSharing(oldGeneric, ids, t, "taproot keygen")
	next := run(func(id party.ID) protocol.StartFunc { return RefreshTaproot(cur[id], ids) }, "refresh")
	generic := map[party.ID]*Config{}
	for _, id := range ids {
		vsym.Assert(vsym.BytesEq(next[id].PublicKey, cur[id].PublicKey), "refresh leaves the x-only public key unchanged")
		vsym.Assert(cur[id].PrivateShare.Equal(before[id]), "refresh leaves the caller's pre-refresh configuration unchanged")
		if t >= 1 {
			vsym.Assert(!next[id].PrivateShare.Equal(before[id]), "every party's share changes in a refresh")
		}
		generic[id] = taprootAsGeneric(next[id])
	}
	sk := checkSharing(generic, ids, t, "after taproot refresh")
	vsym.Assert(sk.Equal(sk0), "refresh leaves the shared secret unchanged")
	signers := ids[:t+1]
	msg := []byte("0123456789abcdef0123456789abcdef")
	sh := map[party.ID]protocol.Handler{}
	for _, id := range signers {
		h, err := protocol.NewMultiHandler(SignTaproot(next[id], signers, msg), []byte("sign"))
		vsym.Assert(err == nil, "sign starts")
		sh[id] = h
	}
	runAll(sh, signers)
	for _, id := range signers {
		r, err := sh[id].Result()
		vsym.Assert(err == nil, "signing with refreshed taproot material completes")
		vsym.Assert(bip340Verify(next[ids[0]].PublicKey, msg, []byte(r.(taproot.Signature))), "signature passes BIP-340 verification under the unchanged key")
	}
	vsym.Reach("frost-taproot-refresh-checked")
}
