//go:build verif

package keygen

import (
	"crypto/rand"

	"github.com/fxamacker/cbor/v2"
	"github.com/taurusgroup/multi-party-sig/internal/round"
	"github.com/taurusgroup/multi-party-sig/internal/types"
	"github.com/taurusgroup/multi-party-sig/internal/vsym"
	"github.com/taurusgroup/multi-party-sig/pkg/hash"
	"github.com/taurusgroup/multi-party-sig/pkg/math/curve"
	"github.com/taurusgroup/multi-party-sig/pkg/math/polynomial"
	"github.com/taurusgroup/multi-party-sig/pkg/math/sample"
	"github.com/taurusgroup/multi-party-sig/pkg/party"
	"github.com/taurusgroup/multi-party-sig/pkg/protocol"
	zksch "github.com/taurusgroup/multi-party-sig/pkg/zk/sch"
)

var c03IDs = []party.ID{"a", "b", "c"}

func drainH(h protocol.Handler) []*protocol.Message {
	var out []*protocol.Message
	ch := h.Listen()
	for {
		select {
		case m, ok := <-ch:
			if !ok {
				return out
			}
			out = append(out, m)
		default:
			return out
		}
	}
}

func remarshal(m *protocol.Message, content interface{}) *protocol.Message {
	data, err := cbor.Marshal(content)
	vsym.Assume(err == nil)
	mm := *m
	mm.Data = data
	return &mm
}

// H_C03_FrostKeygenTamper: party c deviates in ONE field of ONE message (catalogue below); a and b are honest.
// Every honest party either does not finish, or finishes with key material consistent with every other honest finisher
// (same group key, same table, own share matches the table, and the table is a degree-t sharing of the key).
func H_C03_FrostKeygenTamper() {
	group := curve.Secp256k1{}
	t := vsym.Choose("t", 2) + 1 // 1 or 2 (t=0 has nothing to share)
	if t > 2 {
		vsym.Stop()
	}
	hs := map[party.ID]*protocol.MultiHandler{}
	for _, id := range c03IDs {
		h, err := protocol.NewMultiHandler(StartKeygenCommon(false, group, c03IDs, t, id, nil, nil, nil), []byte("sid"))
		vsym.Assume(err == nil)
		hs[id] = h
	}
	tamper := vsym.Choose("tamper", 12)
	var bBroadcast2 *protocol.Message
	victimOnly := vsym.Choose("scope", 2) == 1 // tampered copy to a only, or to everybody
	shortCommitment = nil
	if tamper == 11 {
		prepareShortRID(hs["c"])
	}
	for step := 0; step < 10; step++ {
		var batch []*protocol.Message
		for _, id := range c03IDs {
			batch = append(batch, drainH(hs[id])...)
		}
		if len(batch) == 0 {
			break
		}
		for _, m := range batch {
			out := map[party.ID]*protocol.Message{"a": m, "b": m, "c": m}
			if m.From == "b" && m.RoundNumber == 2 && m.Broadcast {
				bBroadcast2 = m
			}
			if m.From == "c" && tamper == 10 && m.RoundNumber == 2 && m.Broadcast && bBroadcast2 != nil {
				// replay of b's whole round-2 broadcast (polynomial commitment + proof + commitment) under c's name
				bad := *m
				bad.Data = bBroadcast2.Data
				out["a"] = &bad
				if !victimOnly {
					out["b"] = &bad
				}
			} else if m.From == "c" {
				if bad := tamperMessage(hs, m, tamper, t); bad != nil {
					out["a"] = bad
					if !victimOnly {
						out["b"] = bad
					}
				}
			}
			if m.From == "c" && m.RoundNumber >= 3 {
				// the deviating party also echoes, to each victim, the broadcast hash that victim expects
				for _, id := range []party.ID{"a", "b"} {
					if exp := hs[id].VerifBroadcastHash(m.RoundNumber - 1); exp != nil {
						mm := *out[id]
						mm.BroadcastVerification = exp
						out[id] = &mm
					}
				}
			}
			for _, id := range c03IDs {
				if hs[id].CanAccept(out[id]) {
					if id == "c" { // the deviating party may break itself: not our concern
						h, msg := hs[id], out[id]
						_ = vsym.ExpectPanic(func() { h.Accept(msg) })
					} else {
						hs[id].Accept(out[id])
					}
				}
			}
			if tamper == 10 && m.From == "c" && m.RoundNumber == 2 && m.Broadcast && bBroadcast2 != nil {
				// C09: a proof made by b must not verify under c's name: a rejects the message at once
				_, errA := hs["a"].Result()
				vsym.Assert(errA != nil && errA.Error() != "protocol: not finished", "a proof replayed under another sender's name is rejected on receipt")
				vsym.Reach("replay-checked")
			}
		}
	}
	// outcome of the honest parties
	var done []*Config
	for _, id := range []party.ID{"a", "b"} {
		r, err := hs[id].Result()
		if err == nil && r != nil {
			done = append(done, r.(*Config))
		}
	}
	for _, c := range done {
		vsym.Assert(c.PrivateShare.ActOnBase().Equal(c.VerificationShares.Points[c.ID]), "finished honest party: own share matches own table entry")
		vsym.Assert(c.PublicKey.Equal(done[0].PublicKey), "finished honest parties agree on the group key")
		for _, j := range c03IDs {
			vsym.Assert(c.VerificationShares.Points[j].Equal(done[0].VerificationShares.Points[j]), "finished honest parties agree on the public share table")
		}
		// the table is a sharing of the key with the session threshold: any t+1 entries interpolate to it
		fwd, bwd := []party.ID{"a", "b", "c"}, []party.ID{"c", "b", "a"}
		for _, T := range [][]party.ID{fwd[:t+1], bwd[:t+1]} {
			lag := polynomial.Lagrange(group, T)
			P := group.NewPoint()
			for _, j := range T {
				P = P.Add(lag[j].Act(c.VerificationShares.Points[j]))
			}
			vsym.Assert(P.Equal(c.PublicKey), "finished honest party: table interpolates to the group key at the session threshold")
		}
	}
	if len(done) == 2 {
		vsym.Reach("both-honest-finished")
	} else {
		vsym.Reach("some-honest-party-did-not-finish")
	}
}

var shortCommitment hash.Commitment

// prepareShortRID makes c commit to a malformed (16-byte) chain key contribution in round 2 and open it honestly in
// round 3 (a deviation that spans two rounds).
func prepareShortRID(h *protocol.MultiHandler) {
	r2, ok := h.VerifCurrentRound().(*round2)
	vsym.Assume(ok)
	short := types.RID(vsym.Bytes("shortrid", 16, 16))
	vsym.Assume(short[0] != 0)
	com, decom, err := r2.HashForID("c").Commit(short)
	vsym.Assume(err == nil)
	r2.ChainKeys["c"] = short
	r2.ChainKeyDecommitment = decom
	shortCommitment = com
}

// tamperMessage returns the altered copy of c's message m for the chosen catalogue entry, or nil if m is not the target.
func tamperMessage(hs map[party.ID]*protocol.MultiHandler, m *protocol.Message, tamper, t int) *protocol.Message {
	group := curve.Secp256k1{}
	cRound := hs["c"].VerifCurrentRound()
	switch {
	case m.RoundNumber == 2 && m.Broadcast && tamper == 11:
		// consistent two-round deviation (state prepared by prepareShortRID before any delivery)
		body := &broadcast2{Phi_i: polynomial.EmptyExponent(group), Sigma_i: zksch.EmptyProof(group)}
		vsym.Assume(cbor.Unmarshal(m.Data, body) == nil)
		vsym.Assume(shortCommitment != nil)
		body.Commitment = shortCommitment
		return remarshal(m, body)
	case m.RoundNumber == 2 && m.Broadcast && tamper <= 5:
		body := &broadcast2{Phi_i: polynomial.EmptyExponent(group), Sigma_i: zksch.EmptyProof(group)}
		vsym.Assume(cbor.Unmarshal(m.Data, body) == nil)
		var r2 *round2
		switch r := cRound.(type) {
		case *round2:
			r2 = r
		case *round3:
			r2 = r.round2
		}
		vsym.Assume(r2 != nil)
		switch tamper {
		case 0: // commitment to an unrelated polynomial, original proof
			body.Phi_i = polynomial.NewPolynomialExponent(polynomial.NewPolynomial(group, t, sample.Scalar(rand.Reader, group)))
		case 1: // same constant (proof still valid), other coefficients changed: shares no longer match
			body.Phi_i = polynomial.NewPolynomialExponent(polynomial.NewPolynomial(group, t, r2.f_i.Constant()))
		case 2: // proof of knowledge of an unrelated secret
			x := sample.Scalar(rand.Reader, group)
			body.Sigma_i = zksch.NewProof(r2.Helper.HashForID("c"), x.ActOnBase(), x, nil)
		case 3: // proof for the right statement but made in another party's context
			body.Sigma_i = zksch.NewProof(r2.Helper.HashForID("b"), r2.f_i.Constant().ActOnBase(), r2.f_i.Constant(), nil)
		case 4: // chain key commitment replaced
			body.Commitment = hash.Commitment(vsym.Bytes("advcommit", 64, 64))
			vsym.Assume(body.Commitment[0] != 0)
		case 5: // polynomial of the wrong degree, otherwise consistent
			body.Phi_i = polynomial.NewPolynomialExponent(polynomial.NewPolynomial(group, t+1, r2.f_i.Constant()))
		}
		return remarshal(m, body)
	case m.RoundNumber == 3 && !m.Broadcast && m.To == "a" && (tamper == 6 || tamper == 7):
		body := &message3{F_li: group.NewScalar()}
		vsym.Assume(cbor.Unmarshal(m.Data, body) == nil)
		r3, ok := cRound.(*round3)
		vsym.Assume(ok)
		if tamper == 6 { // unrelated share
			body.F_li = sample.Scalar(rand.Reader, group)
		} else { // the share meant for b
			body.F_li = r3.f_i.Evaluate(party.ID("b").Scalar(group))
		}
		return remarshal(m, body)
	case m.RoundNumber == 3 && m.Broadcast && (tamper == 8 || tamper == 9):
		body := &broadcast3{}
		vsym.Assume(cbor.Unmarshal(m.Data, body) == nil)
		if tamper == 8 {
			body.C_l = types.RID(vsym.Bytes("advrid", 32, 32))
			vsym.Assume(body.C_l[0] != 0)
		} else {
			body.Decommitment = hash.Decommitment(vsym.Bytes("advdecommit", 32, 32))
			vsym.Assume(body.Decommitment[0] != 0)
		}
		return remarshal(m, body)
	}
	return nil
}

var _ = round.Number(0)
