//go:build verif

package frost

import (
	"github.com/taurusgroup/multi-party-sig/internal/vsym"
	"github.com/taurusgroup/multi-party-sig/pkg/math/curve"
	"github.com/taurusgroup/multi-party-sig/pkg/math/polynomial"
	"github.com/taurusgroup/multi-party-sig/pkg/party"
	"github.com/taurusgroup/multi-party-sig/pkg/protocol"
)

var allIDs = []party.ID{"a", "b", "c", "d", "e", "f"}

// fieldKeygen runs the real FROST key generation for all parties through the real handlers (field mode: all
// randomness symbolic) and returns the configs.
func fieldKeygen(ids []party.ID, t int) map[party.ID]*Config {
	hs := map[party.ID]protocol.Handler{}
	for _, id := range ids {
		h, err := protocol.NewMultiHandler(Keygen(curve.Secp256k1{}, id, ids, t), []byte("sid"))
		vsym.Assert(err == nil, "keygen starts")
		hs[id] = h
	}
	runAll(hs, ids)
	out := map[party.ID]*Config{}
	for _, id := range ids {
		r, err := hs[id].Result()
		vsym.Assert(err == nil, "all-honest key generation completes")
		out[id] = r.(*Config)
	}
	return out
}

// subsets enumerates the subsets of ids of size k.
func subsets(ids []party.ID, k int) [][]party.ID {
	var out [][]party.ID
	var rec func(start int, cur []party.ID)
	rec = func(start int, cur []party.ID) {
		if len(cur) == k {
			out = append(out, append([]party.ID{}, cur...))
			return
		}
		for i := start; i < len(ids); i++ {
			rec(i+1, append(cur, ids[i]))
		}
	}
	rec(0, nil)
	return out
}

// checkSharing asserts the C02 consistency conditions on a set of configs.
func checkSharing(cfgs map[party.ID]*Config, ids []party.ID, t int, tag string) curve.Scalar {
	group := curve.Secp256k1{}
	first := cfgs[ids[0]]
	for _, id := range ids {
		c := cfgs[id]
		vsym.Assert(c.ID == id && c.Threshold == t, tag+": config carries own id and threshold")
		vsym.Assert(c.PublicKey.Equal(first.PublicKey), tag+": all parties report the same group public key")
		vsym.Assert(len(c.VerificationShares.Points) == len(ids), tag+": table has one entry per party")
		for _, j := range ids {
			vsym.Assert(c.VerificationShares.Points[j].Equal(first.VerificationShares.Points[j]), tag+": all parties report the same public share table")
		}
		vsym.Assert(c.PrivateShare.ActOnBase().Equal(c.VerificationShares.Points[id]), tag+": own secret share matches own table entry")
	}
	// every reconstruction subset of size t+1 gives the same secret, whose public key is the group key
	var sk curve.Scalar
	for _, T := range subsets(ids, t+1) {
		lag := polynomial.Lagrange(group, T)
		s := group.NewScalar()
		P := group.NewPoint()
		for _, j := range T {
			s.Add(group.NewScalar().Set(lag[j]).Mul(cfgs[j].PrivateShare))
			P = P.Add(lag[j].Act(first.VerificationShares.Points[j]))
		}
		if sk == nil {
			sk = s
		}
		vsym.Assert(s.Equal(sk), tag+": every (t+1)-subset of shares reconstructs the same secret")
		vsym.Assert(s.ActOnBase().Equal(first.PublicKey), tag+": the reconstructed secret's public key is the group key")
		vsym.Assert(P.Equal(first.PublicKey), tag+": every (t+1)-subset of table entries interpolates to the group key")
	}
	// t shares are not enough: interpolation over t points is not the key (degree is exactly t)
	if t >= 1 {
		for _, T := range subsets(ids, t) {
			lag := polynomial.Lagrange(group, T)
			s := group.NewScalar()
			for _, j := range T {
				s.Add(group.NewScalar().Set(lag[j]).Mul(cfgs[j].PrivateShare))
			}
			vsym.Assert(!s.Equal(sk), tag+": t shares do not reconstruct the secret")
		}
	}
	return sk
}

// H_C02_FrostKeygen: key generation yields one consistent, reconstructible sharing (all n<=N, all t, all subsets).
func H_C02_FrostKeygen() {
	n := vsym.Choose("n", vsym.Param("maxn", 3)) + 1
	if n < vsym.Param("minn", 2) {
		vsym.Stop()
	}
	ids := allIDs[:n]
	t := vsym.Choose("t", n)
	cfgs := fieldKeygen(ids, t)
	checkSharing(cfgs, ids, t, "keygen")
	// chain keys (C14a): every party holds the same non-nil 32-byte chain key
	for _, id := range ids {
		vsym.Assert(len(cfgs[id].ChainKey) == 32, "chain key is 32 bytes at every party")
		vsym.Assert(vsym.BytesEq(cfgs[id].ChainKey, cfgs[ids[0]].ChainKey), "all parties hold the same chain key")
	}
	vsym.Reach("frost-keygen-checked")
}

// taprootAsGeneric converts the Taproot result types to the generic config (public key = lift_x(x-only key)).
func taprootAsGeneric(c *TaprootConfig) *Config {
	pk, err := curve.Secp256k1{}.LiftX(c.PublicKey)
	vsym.Assert(err == nil, "taproot public key lifts")
	vsym.Assert(pk.HasEvenY(), "taproot public key is the even-Y point")
	pts := map[party.ID]curve.Point{}
	for k, v := range c.VerificationShares {
		pts[k] = v
	}
	return &Config{ID: c.ID, Threshold: c.Threshold, PrivateShare: c.PrivateShare, PublicKey: pk, ChainKey: c.ChainKey, VerificationShares: party.NewPointMap(pts)}
}

// H_C02_FrostKeygenTaproot: the same conditions for BIP-340 keys (x-only public key, even-Y normalisation of all shares).
func H_C02_FrostKeygenTaproot() {
	n := vsym.Choose("n", vsym.Param("maxn", 3)) + 1
	if n < 2 {
		vsym.Stop()
	}
	ids := allIDs[:n]
	t := vsym.Choose("t", n)
	hs := map[party.ID]protocol.Handler{}
	for _, id := range ids {
		h, err := protocol.NewMultiHandler(KeygenTaproot(id, ids, t), []byte("sid"))
		vsym.Assert(err == nil, "keygen starts")
		hs[id] = h
	}
	runAll(hs, ids)
	cfgs := map[party.ID]*Config{}
	var pkBytes []byte
	for _, id := range ids {
		r, err := hs[id].Result()
		vsym.Assert(err == nil, "all-honest taproot key generation completes")
		tc := r.(*TaprootConfig)
		vsym.Assert(len(tc.PublicKey) == 32, "x-only public key")
		if pkBytes == nil {
			pkBytes = tc.PublicKey
		}
		vsym.Assert(vsym.BytesEq(tc.PublicKey, pkBytes), "same x-only public key at every party")
		vsym.Assert(len(tc.ChainKey) == 32, "chain key is 32 bytes at every party")
		cfgs[id] = taprootAsGeneric(tc)
	}
	checkSharing(cfgs, ids, t, "taproot keygen")
	vsym.Reach("frost-taproot-keygen-checked")
}
