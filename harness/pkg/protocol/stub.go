//go:build verif

package protocol

// A small deterministic round-based protocol used to drive the real handlers symbolically.
// Rounds 1..R; round k>=2 consumes the messages emitted by round k-1. Each consuming round can expect a
// reliable broadcast, a point-to-point message, or both (configured per harness).

import (
	"errors"

	"github.com/taurusgroup/multi-party-sig/internal/round"
	"github.com/taurusgroup/multi-party-sig/internal/vsym"
	"github.com/taurusgroup/multi-party-sig/pkg/hash"
	"github.com/taurusgroup/multi-party-sig/pkg/party"
)

type stubCfg struct {
	rounds   int          // R (final round number)
	bcast    map[int]bool // round k expects a broadcast
	p2p      map[int]bool // round k expects a p2p message
	seed     map[party.ID][]byte
	verify   func(r *stubRound, msg round.Message) error // extra VerifyMessage behaviour (nil = accept non-empty)
	storeB   func(r *stubRound, msg round.Message) error // extra StoreBroadcastMessage behaviour
	finalize func(r *stubRound) (round.Session, bool)    // optional override of Finalize (abort decisions)
	protoID  string
}

type stubBcast struct {
	round.ReliableBroadcastContent
	N       round.Number
	Payload []byte
}

func (m *stubBcast) RoundNumber() round.Number { return m.N }

type stubP2P struct {
	N       round.Number
	Payload []byte
}

func (m *stubP2P) RoundNumber() round.Number { return m.N }

type stubRound struct {
	*round.Helper
	cfg  *stubCfg
	n    round.Number
	gotB map[party.ID][]byte
	gotP map[party.ID][]byte
	acc  []byte
}

// stubRoundP: consumes p2p only (or nothing: round 1)
type stubRoundP struct{ *stubRound }

// stubRoundB: consumes a broadcast (and possibly p2p)
type stubRoundB struct{ *stubRound }

func (r *stubRound) Number() round.Number { return r.n }

func (r *stubRound) MessageContent() round.Content {
	if r.n >= 2 && r.cfg.p2p[int(r.n)] {
		return &stubP2P{N: r.n}
	}
	return nil
}

func (r *stubRound) VerifyMessage(msg round.Message) error {
	if r.n < 2 {
		return nil
	}
	body, ok := msg.Content.(*stubP2P)
	if !ok || body == nil {
		return round.ErrInvalidContent
	}
	if r.cfg.verify != nil {
		if err := r.cfg.verify(r, msg); err != nil {
			return err
		}
	}
	if len(body.Payload) == 0 {
		return errors.New("stub: empty payload")
	}
	return nil
}

func (r *stubRound) StoreMessage(msg round.Message) error {
	if r.n < 2 {
		return nil
	}
	body := msg.Content.(*stubP2P)
	r.gotP[msg.From] = body.Payload
	return nil
}

func (r stubRoundB) StoreBroadcastMessage(msg round.Message) error {
	body, ok := msg.Content.(*stubBcast)
	if !ok || body == nil {
		return round.ErrInvalidContent
	}
	if r.cfg.storeB != nil {
		if err := r.cfg.storeB(r.stubRound, msg); err != nil {
			return err
		}
	}
	if len(body.Payload) == 0 {
		return errors.New("stub: empty broadcast payload")
	}
	r.gotB[msg.From] = body.Payload
	return nil
}

func (r stubRoundB) BroadcastContent() round.BroadcastContent { return &stubBcast{N: r.n} }

func (r *stubRound) payload(kind byte, next round.Number, to party.ID) []byte {
	out := []byte{kind, byte(next)}
	out = append(out, []byte(r.SelfID())...)
	out = append(out, r.cfg.seed[r.SelfID()]...)
	return out
}

func (r *stubRound) Finalize(out chan<- *round.Message) (round.Session, error) {
	if r.cfg.finalize != nil {
		if s, done := r.cfg.finalize(r); done {
			return s, nil
		}
	}
	// fold everything received in this round into the accumulator, in party order
	h := hash.New()
	_ = h.WriteAny(r.acc)
	for _, id := range r.PartyIDs() {
		if id == r.SelfID() && r.n >= 2 { // own contributions (the handler does not loop them back)
			if r.cfg.bcast[int(r.n)] {
				_ = h.WriteAny(&hash.BytesWithDomain{TheDomain: "B" + string(id), Bytes: r.payload('B', r.n, "")})
			}
			if r.cfg.p2p[int(r.n)] {
				_ = h.WriteAny(&hash.BytesWithDomain{TheDomain: "P" + string(id), Bytes: r.payload('P', r.n, "")})
			}
			continue
		}
		if b, ok := r.gotB[id]; ok {
			_ = h.WriteAny(&hash.BytesWithDomain{TheDomain: "B" + string(id), Bytes: b})
		}
		if p, ok := r.gotP[id]; ok {
			_ = h.WriteAny(&hash.BytesWithDomain{TheDomain: "P" + string(id), Bytes: p})
		}
	}
	acc := h.Sum()[:8]
	if int(r.n) == r.cfg.rounds {
		return r.ResultRound(acc), nil
	}
	next := r.n + 1
	if r.cfg.bcast[int(next)] {
		if err := r.BroadcastMessage(out, &stubBcast{N: next, Payload: r.payload('B', next, "")}); err != nil {
			return r.self(), err
		}
	}
	if r.cfg.p2p[int(next)] {
		for _, id := range r.OtherPartyIDs() {
			if err := r.SendMessage(out, &stubP2P{N: next, Payload: r.payload('P', next, id)}, id); err != nil {
				return r.self(), err
			}
		}
	}
	nr := &stubRound{Helper: r.Helper, cfg: r.cfg, n: next, gotB: map[party.ID][]byte{}, gotP: map[party.ID][]byte{}, acc: acc}
	return nr.wrap(), nil
}

func (r *stubRound) wrap() round.Session {
	if r.n >= 2 && r.cfg.bcast[int(r.n)] {
		return stubRoundB{r}
	}
	return stubRoundP{r}
}

func (r *stubRound) self() round.Session { return r.wrap() }

func stubStart(cfg *stubCfg, self party.ID, ids []party.ID) StartFunc {
	return func(sessionID []byte) (round.Session, error) {
		pid := cfg.protoID
		if pid == "" {
			pid = "stub"
		}
		helper, err := round.NewSession(round.Info{
			ProtocolID: pid, FinalRoundNumber: round.Number(cfg.rounds), SelfID: self, PartyIDs: ids, Threshold: len(ids) - 1,
		}, sessionID, nil)
		if err != nil {
			return nil, err
		}
		r := &stubRound{Helper: helper, cfg: cfg, n: 1, gotB: map[party.ID][]byte{}, gotP: map[party.ID][]byte{}}
		return r.wrap(), nil
	}
}

// drain takes every message currently in the handler's out channel (non-blocking).
// acceptDrain delivers m and then empties the handler's outgoing channel, as the consumer of Listen() does in every real
// deployment (the channel holds 2N messages; a run of more than 3 rounds fills it otherwise and Accept blocks).
func acceptDrain(h Handler, m *Message) {
	h.Accept(m)
	drain(h)
}

func drain(h Handler) []*Message {
	var out []*Message
	ch := h.Listen()
	for {
		select {
		case m, ok := <-ch:
			if !ok {
				return out
			}
			out = append(out, m)
		default:
			return out
		}
	}
}

func defaultCfg(rounds int, ids []party.ID) *stubCfg {
	cfg := &stubCfg{rounds: rounds, bcast: map[int]bool{}, p2p: map[int]bool{}, seed: map[party.ID][]byte{}}
	for k := 2; k <= rounds; k++ {
		cfg.bcast[k] = true
		cfg.p2p[k] = true
	}
	for _, id := range ids {
		cfg.seed[id] = []byte{'s'}
	}
	return cfg
}

// H_StubLockstep: engine/handler smoke test — an all-honest in-order run completes with equal results.
func H_StubLockstep() {
	ids := []party.ID{"a", "b", "c"}
	cfg := defaultCfg(vsym.Param("rounds", 3), ids)
	hs := map[party.ID]*MultiHandler{}
	for _, id := range ids {
		h, err := NewMultiHandler(stubStart(cfg, id, ids), []byte("sid"))
		vsym.Assert(err == nil, "handler starts")
		hs[id] = h
	}
	for step := 0; step < 10; step++ {
		var batch []*Message
		for _, id := range ids {
			batch = append(batch, drain(hs[id])...)
		}
		if len(batch) == 0 {
			break
		}
		for _, m := range batch {
			for _, id := range ids {
				if hs[id].CanAccept(m) {
					hs[id].Accept(m)
				}
			}
		}
	}
	var first []byte
	for _, id := range ids {
		res, err := hs[id].Result()
		vsym.Assert(err == nil, "honest run completes")
		b, _ := res.([]byte)
		if first == nil {
			first = b
		}
		vsym.Assert(vsym.BytesEq(first, b), "all parties agree")
	}
	vsym.Reach("lockstep-done")
}
