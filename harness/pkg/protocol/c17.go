//go:build verif

package protocol

import (
	"sync"

	"github.com/taurusgroup/multi-party-sig/internal/round"
	"github.com/taurusgroup/multi-party-sig/internal/vsym"
	"github.com/taurusgroup/multi-party-sig/pkg/party"
)

const notFinished = "protocol: not finished"

type lifeObs struct {
	ended   bool
	hasVal  bool
	hasErr  bool
	closed  bool
	pending int
}

// probe observes a handler through its public API only.
func probe(h Handler) lifeObs {
	var o lifeObs
	res, err := h.Result()
	o.hasVal = res != nil
	o.hasErr = err != nil && err.Error() != notFinished
	o.ended = o.hasVal || o.hasErr
	ch := h.Listen()
	for {
		select {
		case _, ok := <-ch:
			if !ok {
				o.closed = true
				return o
			}
			o.pending++
			continue
		default:
		}
		return o
	}
}

func checkLife(h Handler, o lifeObs, when string) {
	vsym.Assert(!(o.hasVal && o.hasErr), "Result is a value xor an error")
	vsym.Assert(o.closed == o.ended, "outgoing channel closed exactly when the session has ended")
}

// lifecycle drives one handler through a symbolic phase and then a sequence of API calls, checking after each call
// the lifecycle rules of C17.
func lifecycle(mk func() Handler, inbox []*Message, bad *Message, ssid []byte) {
	h := mk()
	vsym.Consumed(h.Listen()) // the application reads Listen() concurrently (one Accept can emit more than the buffer holds)
	vsym.Watch(h)
	phase := vsym.Choose("phase", 3)
	switch phase {
	case 0: // running: some prefix delivered
		k := vsym.Choose("k", len(inbox))
		for i := 0; i < k; i++ {
			vsym.Op("Accept")
			h.Accept(inbox[i])
		}
	case 1: // finished
		for _, m := range inbox {
			vsym.Op("Accept")
			h.Accept(m)
		}
	case 2: // aborted by a bad message
		vsym.Op("Accept")
		h.Accept(bad)
	}
	vsym.Op("")
	o := probe(h)
	checkLife(h, o, "after phase")
	if phase == 1 {
		vsym.Assert(o.hasVal, "all messages delivered: finished with a value")
	}
	if phase == 2 && bad.RoundNumber == 0 {
		vsym.Assert(o.hasErr, "peer abort notice: ended with an error")
	}
	steps := vsym.Param("seq", 2)
	next := 0
	for s := 0; s < steps; s++ {
		before := o
		resBefore, errBefore := h.Result()
		op := vsym.Choose("op", 6)
		switch op {
		case 0:
			vsym.Op("Stop")
			h.Stop()
			vsym.Op("")
			o = probe(h)
			vsym.Assert(o.ended, "after Stop the session has ended")
			if !before.ended {
				vsym.Assert(o.hasErr, "Stop on a running session ends it with an error")
			}
		case 1:
			mu := lightMessage(ssid, inbox)
			vsym.Op("Accept")
			h.Accept(mu)
			vsym.Op("")
			o = probe(h)
		case 2:
			mu := lightMessage(ssid, inbox)
			vsym.Op("CanAccept")
			_ = h.CanAccept(mu)
			vsym.Op("")
			o = probe(h)
			vsym.Assert(o.ended == before.ended, "CanAccept does not change the phase")
		case 3:
			vsym.Op("Result")
			_, _ = h.Result()
			vsym.Op("Listen")
			_ = h.Listen()
			vsym.Op("")
			o = probe(h)
			vsym.Assert(o.ended == before.ended, "Result/Listen do not change the phase")
		case 4: // next honest message (if any)
			if phase == 0 && next < len(inbox) {
				vsym.Op("Accept")
				h.Accept(inbox[len(inbox)-1-next])
				next++
				vsym.Op("")
			}
			o = probe(h)
		case 5: // nil message
			vsym.Op("Accept")
			h.Accept(nil)
			vsym.Op("CanAccept")
			vsym.Assert(!h.CanAccept(nil), "nil message refused")
			vsym.Op("")
			o = probe(h)
		}
		checkLife(h, o, "after op")
		if before.ended {
			resAfter, errAfter := h.Result()
			vsym.Assert(o.ended && o.hasVal == before.hasVal && o.hasErr == before.hasErr, "Result stays fixed once the session has ended")
			vsym.Assert(vsym.Same(vsym.Snapshot([]interface{}{resBefore, errBefore != nil}), vsym.Snapshot([]interface{}{resAfter, errAfter != nil})), "Result value unchanged after the end")
			vsym.Assert(o.pending == 0, "nothing is sent after the end")
		}
	}
	vsym.AssertLockset("no unsynchronised access to handler state")
	vsym.Reach("lifecycle-done")
}

// lightMessage: a handful of message shapes with symbolic round number / payload.
func lightMessage(ssid []byte, inbox []*Message) *Message {
	switch vsym.Choose("mukind", 4) {
	case 0:
		d := *inbox[0]
		return &d
	case 1:
		return &Message{SSID: ssid, From: "b", Protocol: inbox[0].Protocol, RoundNumber: 0, Data: []byte("peer abort")}
	case 2:
		return &Message{SSID: vsym.Bytes("fssid", 1, 1), From: "b", Protocol: inbox[0].Protocol, RoundNumber: 2, Data: []byte("x")}
	}
	return &Message{SSID: ssid, From: "c", Protocol: inbox[0].Protocol, RoundNumber: round.Number(vsym.Uint16("muround")),
		Data: vsym.Bytes("mudata", 1, 1), Broadcast: vsym.Bool("mubcast")}
}

func H_Lifecycle_Multi() {
	rounds := vsym.Param("rounds", 2)
	cfg := defaultCfg(rounds, stubIDs)
	sid := []byte("sid")
	all := honestTraffic(cfg, stubIDs, sid)
	inbox := inboxOf(all, "a")
	mk := func() Handler {
		h, err := NewMultiHandler(stubStart(cfg, "a", stubIDs), sid)
		vsym.Assume(err == nil)
		return h
	}
	h0, _ := NewMultiHandler(stubStart(cfg, "a", stubIDs), sid)
	ssid := h0.currentRound.SSID()
	bad := *inbox[0]
	bad.Data = vsym.Bytes("baddata", 1, 2) // undecodable or arbitrary content
	if vsym.Choose("badkind", 2) == 1 {
		bad = Message{SSID: ssid, From: "b", Protocol: "stub", RoundNumber: 0, Data: []byte("peer abort")}
	}
	lifecycle(mk, inbox, &bad, ssid)
	if vsym.Native() {
		raceDrive(mk, inbox)
	}
}

// raceDrive (native replay only, run under the race detector): the public API driven from several goroutines.
func raceDrive(mk func() Handler, inbox []*Message) {
	for iter := 0; iter < 150; iter++ {
		raceDriveOnce(mk(), inbox)
	}
}

func raceDriveOnce(h Handler, inbox []*Message) {
	var wg sync.WaitGroup
	for g := 0; g < 4; g++ {
		wg.Add(1)
		go func(g int) {
			defer wg.Done()
			defer func() { _ = recover() }()
			for i, m := range inbox {
				switch (i + g) % 4 {
				case 0:
					h.Accept(m)
				case 1:
					_ = h.CanAccept(m)
				case 2:
					_, _ = h.Result()
				case 3:
					if i > len(inbox)/2 {
						h.Stop()
					}
				}
			}
		}(g)
	}
	wg.Add(1)
	go func() {
		defer wg.Done()
		for range h.Listen() {
		}
	}()
	for _, m := range inbox {
		h.Accept(m)
	}
	h.Stop()
	wg.Wait()
}

// two-party stub: round 1 (leader speaks first), p2p only
func twoPartyCfg(rounds int) *stubCfg {
	ids := []party.ID{"a", "b"}
	cfg := &stubCfg{rounds: rounds, bcast: map[int]bool{}, p2p: map[int]bool{}, seed: map[party.ID][]byte{}}
	for k := 2; k <= rounds; k++ {
		cfg.p2p[k] = true
	}
	for _, id := range ids {
		cfg.seed[id] = []byte{'s'}
	}
	return cfg
}

var _ = round.Number(0)
