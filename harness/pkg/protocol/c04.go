//go:build verif

package protocol

import (
	"errors"

	"github.com/taurusgroup/multi-party-sig/internal/round"
	"github.com/taurusgroup/multi-party-sig/internal/vsym"
	"github.com/taurusgroup/multi-party-sig/pkg/party"
)

// H_CulpritSound_Multi: the verification outcome of every incoming message is a free boolean (the protocol's
// checks are abstracted), message bodies of one sender may be undecodable, a peer may relay an abort notice, and the
// protocol itself may end in an Abort round naming culprits. Whenever the handler ends with an error naming culprits,
// every culprit (a) sent a message whose decoding/verification/storing failed at this party, or (b) was named by the
// protocol's own Abort round, or (c) is the origin of a round-0 abort notice. Nobody else is ever named.
func H_CulpritSound_Multi() {
	rounds := vsym.Param("rounds", 2)
	cfg := defaultCfg(rounds, stubIDs)
	sid := []byte("sid")
	all := honestTraffic(cfg, stubIDs, sid)
	inbox := inboxOf(all, "a")

	blamed := map[party.ID]bool{}
	rejected := map[party.ID]bool{} // senders whose message the protocol rejected when the handler presented it
	cfg2 := defaultCfg(rounds, stubIDs)
	cfg2.verify = func(r *stubRound, msg round.Message) error {
		if vsym.Bool("verifyfails") {
			blamed[msg.From] = true
			rejected[msg.From] = true
			return errors.New("stub: verification failed")
		}
		return nil
	}
	cfg2.storeB = func(r *stubRound, msg round.Message) error {
		if vsym.Bool("bcastfails") {
			blamed[msg.From] = true
			rejected[msg.From] = true
			return errors.New("stub: broadcast rejected")
		}
		return nil
	}
	protoAbort := vsym.Choose("protoabort", 2) == 1
	cfg2.finalize = func(r *stubRound) (round.Session, bool) {
		if protoAbort && int(r.n) == rounds {
			blamed["c"] = true
			return r.AbortRound(errors.New("stub: identified cheater"), "c"), true
		}
		return nil, false
	}
	h, err := NewMultiHandler(stubStart(cfg2, "a", stubIDs), sid)
	vsym.Assume(err == nil)
	// one message of b is replaced by garbage (decode failure or arbitrary content), or a relayed abort notice arrives
	tamper := vsym.Choose("tamper", len(inbox)+2)
	// delivery order: as sent, or reversed (point-to-point messages then reach the party before the same sender's
	// broadcast of the round, later rounds before earlier ones)
	if vsym.Choose("reversed", 2) == 1 {
		rev := make([]*Message, len(inbox))
		for i, m := range inbox {
			rev[len(inbox)-1-i] = m
		}
		inbox = rev
	}
	for i, m := range inbox {
		mm := *m
		if i == tamper {
			mm.Data = vsym.Bytes("garbage", 1, 2)
			// the sender of an undecodable message is to blame if the handler says so
			blamed[mm.From] = true
		}
		if i == 0 && tamper == len(inbox) {
			notice := &Message{SSID: m.SSID, From: "b", Protocol: m.Protocol, RoundNumber: 0, Data: []byte("aborted")}
			blamed["b"] = true
			h.Accept(notice)
		}
		h.Accept(&mm)
	}
	_, rerr := h.Result()
	// completeness of attribution: a message the protocol rejected ends the session with an error naming its sender
	for _, id := range stubIDs {
		if rejected[id] {
			var perr Error
			named := false
			if rerr != nil && errors.As(rerr, &perr) {
				for _, c := range perr.Culprits {
					if c == id {
						named = true
					}
				}
			}
			vsym.Assert(named, "a message that fails verification ends the session with an error attributed to its sender")
		}
	}
	if rerr != nil && rerr.Error() != notFinished {
		var perr Error
		ok := errors.As(rerr, &perr)
		vsym.Assert(ok, "handler error is a protocol.Error")
		for _, c := range perr.Culprits {
			vsym.Assert(blamed[c], "every named culprit sent a message that failed at this party, or was named by the protocol, or relayed an abort")
			vsym.Assert(c != "a", "an honest party never names itself for a peer's fault")
		}
		vsym.Reach("ended-with-error")
	} else {
		vsym.Reach("ended-without-error")
	}
}
