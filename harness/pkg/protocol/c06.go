//go:build verif

package protocol

import (
	"errors"

	"github.com/fxamacker/cbor/v2"
	"github.com/taurusgroup/multi-party-sig/internal/round"
	"github.com/taurusgroup/multi-party-sig/internal/vsym"
	"github.com/taurusgroup/multi-party-sig/pkg/party"
)

// containsStr is strings.Contains written out (the engine interprets it; strings.Contains ends in an assembly routine).
func containsStr(s, sub string) bool {
	for i := 0; i+len(sub) <= len(s); i++ {
		if s[i:i+len(sub)] == sub {
			return true
		}
	}
	return false
}

func deliverTo(h *MultiHandler, ms []*Message) {
	for _, m := range ms {
		if h.CanAccept(m) {
			h.Accept(m)
		}
	}
}

func finished(h *MultiHandler) bool {
	res, err := h.Result()
	return res != nil && err == nil
}

// craft builds a message of the adversary "c" for round k.
func craft(ssid []byte, k int, to party.ID, bcast bool, payload, bv []byte) *Message {
	var data []byte
	if bcast {
		data, _ = cbor.Marshal(&stubBcast{N: round.Number(k), Payload: payload})
	} else {
		data, _ = cbor.Marshal(&stubP2P{N: round.Number(k), Payload: payload})
	}
	return &Message{SSID: ssid, From: "c", To: to, Protocol: "stub", RoundNumber: round.Number(k), Data: data, Broadcast: bcast, BroadcastVerification: bv}
}

// H_Equivocate: party c sends different broadcast payloads A (to a) and B (to b) in round `eq` (a non-final broadcast
// round) and arbitrary BroadcastVerification fields afterwards; a and b are honest. If A != B then a and b do not both
// complete; if both complete, their views of every broadcast are byte-identical.
func H_Equivocate() {
	rounds := vsym.Param("rounds", 3)
	eq := vsym.Param("eqround", 2)
	cfg := defaultCfg(rounds, stubIDs)
	if vsym.Param("bcastonly", 0) == 1 {
		for k := 2; k <= rounds; k++ {
			cfg.p2p[k] = false
		}
	}
	sid := []byte("sid")
	ha, ea := NewMultiHandler(stubStart(cfg, "a", stubIDs), sid)
	hb, eb := NewMultiHandler(stubStart(cfg, "b", stubIDs), sid)
	vsym.Assume(ea == nil && eb == nil)
	ssid := ha.currentRound.SSID()
	A := vsym.Bytes("A", 1, vsym.Param("payload", 2))
	B := vsym.Bytes("B", 1, vsym.Param("payload", 2))
	order := vsym.Choose("order", 2)
	for k := 2; k <= rounds; k++ {
		// honest traffic of a and b for round k
		ma := drain(ha)
		mb := drain(hb)
		// adversary's messages for round k
		var toA, toB []*Message
		bvA, bvB := []byte(nil), []byte(nil)
		if k > 2 {
			if vsym.Choose("bvkind", 2) == 0 {
				// c echoes what the recipient itself computed (strongest adversary: it knows both views)
				bvA, bvB = ha.broadcastHashes[round.Number(k-1)], hb.broadcastHashes[round.Number(k-1)]
			} else {
				bvA, bvB = vsym.Bytes("bvA", 64, 64), vsym.Bytes("bvB", 64, 64)
			}
		}
		if cfg.bcast[k] {
			pa, pb := []byte{'c', byte(k)}, []byte{'c', byte(k)}
			if k == eq {
				pa, pb = A, B
			}
			toA = append(toA, craft(ssid, k, "", true, pa, bvA))
			toB = append(toB, craft(ssid, k, "", true, pb, bvB))
		}
		if cfg.p2p[k] {
			toA = append(toA, craft(ssid, k, "a", false, []byte{'p', byte(k)}, bvA))
			toB = append(toB, craft(ssid, k, "b", false, []byte{'p', byte(k)}, bvB))
		}
		if order == 0 {
			deliverTo(ha, mb)
			deliverTo(ha, toA)
			deliverTo(hb, ma)
			deliverTo(hb, toB)
		} else {
			deliverTo(ha, toA)
			deliverTo(hb, toB)
			deliverTo(hb, ma)
			deliverTo(ha, mb)
		}
	}
	// blame (C04): whoever aborts never names the honest peer
	for i, h := range []*MultiHandler{ha, hb} {
		other := []*MultiHandler{hb, ha}[i]
		_, err := h.Result()
		var perr Error
		if err != nil && errors.As(err, &perr) {
			_, oerr := other.Result()
			for _, c := range perr.Culprits {
				// a peer that aborted itself and whose abort notice we received is reported as the origin of that notice
				relayed := oerr != nil && oerr.Error() != notFinished && containsStr(perr.Error(), "aborted by other party")
				vsym.Assert(c == "c" || relayed, "an equivocation abort never names an honest party (other than as the origin of its own abort notice)")
			}
		}
	}
	both := vsym.And(finished(ha), finished(hb))
	vsym.Assert(vsym.Implies(both, vsym.BytesEq(A, B)), "equivocated broadcast: both honest parties never complete")
	if finished(ha) && finished(hb) {
		for k := 2; k <= rounds; k++ {
			for _, id := range stubIDs {
				x, y := ha.broadcast[round.Number(k)][id], hb.broadcast[round.Number(k)][id]
				if x != nil && y != nil {
					vsym.Assert(vsym.BytesEq(x.Data, y.Data), "completed parties hold byte-identical broadcast views")
				}
			}
		}
		vsym.Reach("both-finished")
	}
	vsym.Reach("equivocation-compared")
}
