//go:build verif

package protocol

import (
	"github.com/taurusgroup/multi-party-sig/internal/vsym"
	"github.com/taurusgroup/multi-party-sig/pkg/party"
)

var twoIDs = []party.ID{"a", "b"}

// twoTraffic runs an honest two-party session (a is the leader) and returns all messages in causal order.
func twoTraffic(cfg *stubCfg, sid []byte) []*Message {
	ha, ea := NewTwoPartyHandler(stubStart(cfg, "a", twoIDs), sid, true)
	hb, eb := NewTwoPartyHandler(stubStart(cfg, "b", twoIDs), sid, false)
	vsym.Assume(ea == nil && eb == nil)
	var all []*Message
	for step := 0; step < 12; step++ {
		batch := append(drain(ha), drain(hb)...)
		if len(batch) == 0 {
			break
		}
		all = append(all, batch...)
		for _, m := range batch {
			if ha.CanAccept(m) {
				ha.Accept(m)
			}
			if hb.CanAccept(m) {
				hb.Accept(m)
			}
		}
	}
	ra, e1 := ha.Result()
	rb, e2 := hb.Result()
	vsym.Assert(e1 == nil && e2 == nil, "honest two-party run completes")
	x, _ := ra.([]byte)
	y, _ := rb.([]byte)
	vsym.Assert(vsym.BytesEq(x, y), "two-party results agree")
	return all
}

func H_Lifecycle_Two() {
	rounds := vsym.Param("rounds", 3)
	cfg := twoPartyCfg(rounds)
	sid := []byte("sid")
	all := twoTraffic(cfg, sid)
	self := party.ID("b")
	leader := false
	if vsym.Choose("who", 2) == 1 {
		self, leader = "a", true
	}
	inbox := inboxOf(all, self)
	mk := func() Handler {
		h, err := NewTwoPartyHandler(stubStart(cfg, self, twoIDs), sid, leader)
		vsym.Assume(err == nil)
		return h
	}
	h0, _ := NewTwoPartyHandler(stubStart(cfg, self, twoIDs), sid, leader)
	ssid := h0.round.SSID()
	other := party.ID("a")
	if self == "a" {
		other = "b"
	}
	bad := Message{SSID: ssid, From: other, Protocol: "stub", RoundNumber: 0, Data: []byte("peer abort")}
	if vsym.Choose("badkind", 2) == 1 {
		bad = *inbox[0]
		bad.Data = vsym.Bytes("baddata", 1, 2)
	}
	lifecycle(mk, inbox, &bad, ssid)
	if vsym.Native() {
		raceDrive(mk, inbox)
	}
}

// H_Order_Two: any delivery order of the inbox, with duplicates, gives the in-order result.
func H_Order_Two() {
	rounds := vsym.Param("rounds", 3)
	cfg := twoPartyCfg(rounds)
	sid := []byte("sid")
	all := twoTraffic(cfg, sid)
	self := party.ID("b")
	leader := false
	if vsym.Choose("who", 2) == 1 {
		self, leader = "a", true
	}
	inbox := inboxOf(all, self)
	href, _ := NewTwoPartyHandler(stubStart(cfg, self, twoIDs), sid, leader)
	vsym.Consumed(href.Listen()) // the user reads Listen() concurrently: one Accept may emit more messages than the buffer holds
	for _, m := range inbox {
		acceptDrain(href, m)
	}
	want, err := href.Result()
	vsym.Assert(err == nil, "in-order run completes")
	h, _ := NewTwoPartyHandler(stubStart(cfg, self, twoIDs), sid, leader)
	vsym.Consumed(h.Listen())
	// arbitrary permutation with one optional duplicate
	used := make([]bool, len(inbox))
	for range inbox {
		var free []int
		for i := range inbox {
			if !used[i] {
				free = append(free, i)
			}
		}
		i := free[vsym.Choose("next", len(free))]
		used[i] = true
		_ = drain(h)
		acceptDrain(h, inbox[i])
		if vsym.Choose("dup", 2) == 1 {
			_ = drain(h)
			acceptDrain(h, inbox[i])
		}
	}
	_ = drain(h)
	got, err2 := h.Result()
	vsym.Assert(err2 == nil, "any-order run completes")
	wb, _ := want.([]byte)
	gb, _ := got.([]byte)
	vsym.Assert(vsym.BytesEq(wb, gb), "same result as in-order run")
	vsym.Reach("order-two-compared")
}

// H_Filter_Two: foreign-session, wrong protocol, unknown sender, wrong recipient and nil messages are refused and
// change nothing.
func H_Filter_Two() {
	rounds := vsym.Param("rounds", 3)
	cfg := twoPartyCfg(rounds)
	sid := []byte("sid")
	all := twoTraffic(cfg, sid)
	inbox := inboxOf(all, "b")
	k := vsym.Choose("delivered", len(inbox)+1)
	mk := func() *TwoPartyHandler {
		h, err := NewTwoPartyHandler(stubStart(cfg, "b", twoIDs), sid, false)
		vsym.Assume(err == nil)
		for i := 0; i < k; i++ {
			acceptDrain(h, inbox[i])
			_ = drain(h)
		}
		return h
	}
	h := mk()
	ssid := h.round.SSID()
	mu := symMessage(ssid)
	known := vsym.Or(vsym.StrEq(string(mu.From), "a"), vsym.StrEq(string(mu.From), "b"))
	isFor := vsym.And(vsym.Not(vsym.StrEq(string(mu.From), "b")), vsym.Or(vsym.StrEq(string(mu.To), ""), vsym.StrEq(string(mu.To), "b")))
	foreign := vsym.Or(vsym.Not(vsym.BytesEq(mu.SSID, ssid)), vsym.Not(vsym.StrEq(mu.Protocol, "stub")))
	foreign = vsym.Or(foreign, vsym.Or(vsym.Not(known), vsym.Not(isFor)))
	foreign = vsym.Or(foreign, int(mu.RoundNumber) > rounds)
	can := h.CanAccept(mu)
	vsym.Assert(vsym.Implies(foreign, vsym.Not(can)), "foreign message refused by CanAccept")
	before := observe(h)
	h2 := mk()
	h2.Accept(mu)
	after := observe(h2)
	vsym.Assert(vsym.Implies(foreign, vsym.Same(before, after)), "foreign message changes nothing")
	vsym.Reach("filter-two-compared")
}
