//go:build verif

package protocol

import "github.com/taurusgroup/multi-party-sig/internal/round"

// VerifCurrentRound exposes the current round to harnesses in other packages (overlay only).
func (h *MultiHandler) VerifCurrentRound() round.Session {
	h.mtx.Lock()
	defer h.mtx.Unlock()
	return h.currentRound
}

// VerifCurrentRound exposes the current round to harnesses in other packages (overlay only).
func (h *TwoPartyHandler) VerifCurrentRound() round.Session {
	h.mtx.Lock()
	defer h.mtx.Unlock()
	return h.round
}

// VerifBroadcastHash exposes the echo-broadcast hash this party computed for a round (overlay only): an adversary that
// equivocates knows what each victim expects.
func (h *MultiHandler) VerifBroadcastHash(n round.Number) []byte {
	h.mtx.Lock()
	defer h.mtx.Unlock()
	return h.broadcastHashes[n]
}
