//go:build verif

package protocol

import (
	"github.com/taurusgroup/multi-party-sig/internal/round"
	"github.com/taurusgroup/multi-party-sig/internal/vsym"
	"github.com/taurusgroup/multi-party-sig/pkg/party"
)

var stubIDs = []party.ID{"a", "b", "c"}

// honestTraffic runs an all-honest in-order session and returns every message that was sent, in causal order.
func honestTraffic(cfg *stubCfg, ids []party.ID, sid []byte) []*Message {
	hs := map[party.ID]*MultiHandler{}
	for _, id := range ids {
		h, err := NewMultiHandler(stubStart(cfg, id, ids), sid)
		vsym.Assume(err == nil)
		hs[id] = h
	}
	var all []*Message
	for step := 0; step < 12; step++ {
		var batch []*Message
		for _, id := range ids {
			batch = append(batch, drain(hs[id])...)
		}
		if len(batch) == 0 {
			break
		}
		all = append(all, batch...)
		for _, m := range batch {
			for _, id := range ids {
				if hs[id].CanAccept(m) {
					hs[id].Accept(m)
				}
			}
		}
	}
	return all
}

// inboxOf filters the messages a party must eventually receive.
func inboxOf(all []*Message, self party.ID) []*Message {
	var in []*Message
	for _, m := range all {
		if m.IsFor(self) && m.RoundNumber != 0 {
			in = append(in, m)
		}
	}
	return in
}

type obs struct {
	snap interface{}
	out  []*Message
}

// observe returns the observable state of a handler: deep snapshot plus everything waiting in the out channel.
func observe(h Handler) interface{} {
	return vsym.Snapshot([]interface{}{h, drain(h)})
}

// H_Confluence_Multi: from the state reached after any subset D of the inbox (delivered in causal order), delivering
// two further messages in either order gives the same observable state. With termination this makes the outcome
// independent of the delivery order for the bounded instance (diamond property + induction on swaps).
func H_Confluence_Multi() {
	rounds := vsym.Param("rounds", 3)
	cfg := defaultCfg(rounds, stubIDs)
	sid := []byte("sid")
	all := honestTraffic(cfg, stubIDs, sid)
	inbox := inboxOf(all, "a")
	vsym.Assert(len(inbox) == 4*(rounds-1), "inbox size")
	inD := make([]bool, len(inbox))
	var rest []int
	for i := range inbox {
		inD[i] = vsym.Choose("inD", 2) == 1
		if !inD[i] {
			rest = append(rest, i)
		}
	}
	if len(rest) < 2 {
		vsym.Stop()
	}
	i1 := rest[vsym.Choose("m1", len(rest))]
	i2 := rest[vsym.Choose("m2", len(rest))]
	if i1 >= i2 {
		vsym.Stop()
	}
	mk := func() *MultiHandler {
		h, err := NewMultiHandler(stubStart(cfg, "a", stubIDs), sid)
		vsym.Assume(err == nil)
		_ = drain(h)
		for i, m := range inbox {
			if inD[i] {
				h.Accept(m)
			}
		}
		return h
	}
	h1 := mk()
	pre := drain(h1)
	h1.Accept(inbox[i1])
	h1.Accept(inbox[i2])
	h2 := mk()
	_ = drain(h2)
	h2.Accept(inbox[i2])
	h2.Accept(inbox[i1])
	_ = pre
	vsym.Assert(vsym.Same(observe(h1), observe(h2)), "delivery order of two messages does not matter")
	vsym.Reach("confluence-compared")
}

// H_AllDelivered_Multi: delivering the whole inbox in reverse order (latest round first, p2p before broadcast)
// completes with the same result as the in-order run.
func H_AllDelivered_Multi() {
	rounds := vsym.Param("rounds", 3)
	cfg := defaultCfg(rounds, stubIDs)
	sid := []byte("sid")
	all := honestTraffic(cfg, stubIDs, sid)
	inbox := inboxOf(all, "a")
	href, _ := NewMultiHandler(stubStart(cfg, "a", stubIDs), sid)
	for _, m := range inbox {
		acceptDrain(href, m)
	}
	want, err := href.Result()
	vsym.Assert(err == nil, "in-order run completes")
	h, _ := NewMultiHandler(stubStart(cfg, "a", stubIDs), sid)
	mode := vsym.Choose("order", 3)
	switch mode {
	case 0: // full reverse
		for i := len(inbox) - 1; i >= 0; i-- {
			acceptDrain(h, inbox[i])
		}
	case 1: // every message twice, reverse
		for i := len(inbox) - 1; i >= 0; i-- {
			acceptDrain(h, inbox[i])
			acceptDrain(h, inbox[i])
		}
	case 2: // p2p of every round before broadcasts, rounds descending
		for pass := 0; pass < 2; pass++ {
			for i := len(inbox) - 1; i >= 0; i-- {
				if inbox[i].Broadcast == (pass == 1) {
					acceptDrain(h, inbox[i])
				}
			}
		}
	}
	got, err2 := h.Result()
	vsym.Assert(err2 == nil, "worst-order run completes")
	wb, _ := want.([]byte)
	gb, _ := got.([]byte)
	vsym.Assert(vsym.BytesEq(wb, gb), "same result as in-order run")
	vsym.Reach("alldelivered-compared")
}

// symMessage builds a message with a fully symbolic header relative to an honest session of party "a".
func symMessage(ssid []byte) *Message {
	m := &Message{}
	switch vsym.Choose("ssidkind", 3) {
	case 0:
		m.SSID = ssid
	case 1:
		m.SSID = append([]byte{}, ssid...)
		m.SSID[0] ^= vsym.Byte("ssidflip") | 1
	case 2:
		m.SSID = vsym.Bytes("ssid", 0, 1)
	}
	m.From = party.ID(vsym.String("from", 0, 1))
	m.To = party.ID(vsym.String("to", 0, 1))
	switch vsym.Choose("protokind", 2) {
	case 0:
		m.Protocol = "stub"
	case 1:
		m.Protocol = vsym.String("proto", 0, 4)
	}
	m.RoundNumber = round.Number(vsym.Uint16("round"))
	if vsym.Choose("datanil", 2) == 1 {
		m.Data = vsym.Bytes("data", 0, 2)
	}
	m.Broadcast = vsym.Bool("bcast")
	if vsym.Choose("bvnil", 2) == 1 {
		m.BroadcastVerification = vsym.Bytes("bv", 0, 1)
	}
	return m
}

// H_Filter_Multi (C09-3, C07-2): a message of another session/protocol/sender/recipient is refused by CanAccept and
// leaves the handler unchanged when delivered anyway; the same holds for stale rounds and rounds beyond the last.
func H_Filter_Multi() {
	rounds := vsym.Param("rounds", 3)
	cfg := defaultCfg(rounds, stubIDs)
	sid := []byte("sid")
	all := honestTraffic(cfg, stubIDs, sid)
	inbox := inboxOf(all, "a")
	k := vsym.Choose("delivered", len(inbox)+1)
	mk := func() *MultiHandler {
		h, err := NewMultiHandler(stubStart(cfg, "a", stubIDs), sid)
		vsym.Assume(err == nil)
		for i := 0; i < k; i++ {
			acceptDrain(h, inbox[i])
		}
		return h
	}
	h := mk()
	ssid := h.currentRound.SSID()
	cur := h.currentRound.Number()
	mu := symMessage(ssid)
	known := vsym.Or(vsym.StrEq(string(mu.From), "a"), vsym.Or(vsym.StrEq(string(mu.From), "b"), vsym.StrEq(string(mu.From), "c")))
	isFor := vsym.And(vsym.Not(vsym.StrEq(string(mu.From), "a")), vsym.Or(vsym.StrEq(string(mu.To), ""), vsym.StrEq(string(mu.To), "a")))
	foreign := vsym.Or(vsym.Not(vsym.BytesEq(mu.SSID, ssid)), vsym.Not(vsym.StrEq(mu.Protocol, "stub")))
	foreign = vsym.Or(foreign, vsym.Or(vsym.Not(known), vsym.Not(isFor)))
	stale := vsym.And(mu.RoundNumber != 0, vsym.Or(mu.RoundNumber < cur, int(mu.RoundNumber) > rounds))
	if h.result != nil || h.err != nil {
		stale = true // a finished session ignores everything
	}
	can := h.CanAccept(mu)
	vsym.Assert(vsym.Implies(foreign, vsym.Not(can)), "foreign message refused by CanAccept")
	if h.result == nil && h.err == nil {
		vsym.Assert(vsym.Implies(vsym.And(stale, true), vsym.Not(can)), "stale or out-of-window round refused by CanAccept")
	}
	before := observe(h)
	h2 := mk()
	h2.Accept(mu)
	after := observe(h2)
	vsym.Assert(vsym.Implies(vsym.Or(foreign, stale), vsym.Same(before, after)), "foreign or stale message changes nothing")
	vsym.Reach("filter-compared")
}

// H_Duplicate_Multi: re-delivering any already delivered message (byte-identical, or a second message with the same
// sender/round/kind and different payload: first one wins) leaves the handler unchanged.
func H_Duplicate_Multi() {
	rounds := vsym.Param("rounds", 3)
	cfg := defaultCfg(rounds, stubIDs)
	sid := []byte("sid")
	all := honestTraffic(cfg, stubIDs, sid)
	inbox := inboxOf(all, "a")
	k := vsym.Choose("delivered", len(inbox)) + 1
	j := vsym.Choose("dup", k)
	mk := func() *MultiHandler {
		h, err := NewMultiHandler(stubStart(cfg, "a", stubIDs), sid)
		vsym.Assume(err == nil)
		for i := 0; i < k; i++ {
			acceptDrain(h, inbox[i])
		}
		return h
	}
	dup := *inbox[j]
	if vsym.Choose("alter", 2) == 1 {
		dup.Data = vsym.Bytes("otherdata", 1, 2)
		if vsym.Choose("alterbv", 2) == 1 {
			dup.BroadcastVerification = vsym.Bytes("otherbv", 0, 1)
		}
	}
	h1 := mk()
	h2 := mk()
	acceptDrain(h2, &dup)
	vsym.Assert(vsym.Same(observe(h1), observe(h2)), "duplicate delivery changes nothing")
	vsym.Reach("duplicate-compared")
}
