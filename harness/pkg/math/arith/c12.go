//go:build verif

package arith

import (
	"github.com/cronokirby/saferith"
	"github.com/taurusgroup/multi-party-sig/internal/vsym"
)

func natU(v uint64) *saferith.Nat { return new(saferith.Nat).SetUint64(v) }

// H_C12_CRT: the CRT path of Modulus.Exp / ExpI (factors known) recombines the two residues correctly for every pair
// of residues: result = x^e mod p (mod p), = x^e mod q (mod q), and is below p*q. The two modular exponentiations are
// arbitrary residues (uninterpreted); the recombination arithmetic is the real code.
func H_C12_CRT() {
	pairs := [][2]uint64{{7, 11}, {49, 121}, {7, 23}, {1019, 1021}}
	pq := pairs[vsym.Choose("factors", len(pairs))]
	p, q := natU(pq[0]), natU(pq[1])
	M := ModulusFromFactors(p, q)
	x := vsym.SymNat("x", 20)
	e := vsym.SymNat("e", 20)
	r := M.Exp(x, e)
	pm, qm := saferith.ModulusFromNat(p), saferith.ModulusFromNat(q)
	xp := new(saferith.Nat).Exp(x, e, pm)
	xq := new(saferith.Nat).Exp(x, e, qm)
	vsym.Assert(new(saferith.Nat).Mod(r, pm).Eq(xp) == 1, "CRT result is x^e mod p modulo p")
	vsym.Assert(new(saferith.Nat).Mod(r, qm).Eq(xq) == 1, "CRT result is x^e mod q modulo q")
	_, _, lt := r.CmpMod(M.Modulus)
	vsym.Assert(lt == 1, "CRT result is below p*q")
	vsym.Reach("crt-checked")
}

// H_C12_ExpISign: ExpI(x, e) is Exp(x, |e|) for e >= 0 and its modular inverse for e < 0 (both code paths).
func H_C12_ExpISign() {
	p, q := natU(1019), natU(1021)
	var M *Modulus
	if vsym.Choose("crt", 2) == 1 {
		M = ModulusFromFactors(p, q)
	} else {
		M = ModulusFromN(saferith.ModulusFromNat(new(saferith.Nat).Mul(p, q, -1)))
	}
	x := vsym.SymNat("x", 20)
	e := vsym.SymInt("e", 20)
	got := M.ExpI(x, e)
	pos := M.Exp(x, e.Abs())
	inv := new(saferith.Nat).ModInverse(pos, M.Modulus)
	if e.IsNegative() == 1 {
		vsym.Assert(got.Eq(inv) == 1, "negative exponent: inverse of the positive power")
	} else {
		vsym.Assert(got.Eq(pos) == 1, "non-negative exponent: the positive power")
	}
	vsym.Reach("expi-checked")
}

// H_C10_Intervals: the interval predicates used by the proof verifiers accept exactly |z| < 2^bound, for every integer.
func H_C10_Intervals() {
	z := vsym.SymInt("z", 3000)
	pow := func(bits uint) *saferith.Nat { return new(saferith.Nat).Lsh(natU(1), bits, -1) }
	lt := func(bits uint) bool {
		_, _, l := z.Abs().Cmp(pow(bits))
		return l == 1
	}
	vsym.Assert(IsInIntervalLEps(z) == lt(768), "IsInIntervalLEps accepts exactly |z| < 2^(l+eps)")
	vsym.Assert(IsInIntervalLPrimeEps(z) == lt(1792), "IsInIntervalLPrimeEps accepts exactly |z| < 2^(l'+eps)")
	vsym.Assert(IsInIntervalLEpsPlus1RootN(z) == lt(1793), "IsInIntervalLEpsPlus1RootN accepts exactly |z| < 2^(1+l+eps+|N|/2)")
	vsym.Assert(!IsInIntervalLEps(nil) && !IsInIntervalLPrimeEps(nil), "nil is rejected")
	vsym.Reach("intervals-checked")
}
