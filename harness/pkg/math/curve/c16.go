//go:build verif

package curve

import (
	"github.com/cronokirby/saferith"
	"github.com/taurusgroup/multi-party-sig/internal/vsym"
)

func pow2Bytes(bit int) []byte {
	b := make([]byte, bit/8+1)
	b[0] = 1 << uint(bit%8)
	return b
}

// H_C16_SetNatReduces: Scalar.SetNat(x) is x mod q for numbers of any length — in particular for the 33..48-byte values
// that long party identifiers and over-long hashes produce (decred's SetByteSlice silently truncates inputs longer than
// 32 bytes, so the reduction has to happen before). Concrete lattice around q, 2^256 and beyond; the expected value is
// the scalar of the residue computed separately (exact integers).
func H_C16_SetNatReduces() {
	group := Secp256k1{}
	q := group.Order()
	qn := q.Nat()
	bases := []*saferith.Nat{new(saferith.Nat).SetUint64(2), new(saferith.Nat).SetNat(qn), new(saferith.Nat).SetBytes(pow2Bytes(256)),
		new(saferith.Nat).SetBytes(pow2Bytes(264)), new(saferith.Nat).SetBytes(pow2Bytes(300)), new(saferith.Nat).Mul(qn, qn, 520),
		new(saferith.Nat).SetBytes([]byte("urn:custody:eu-west-1:production:signer-node-01"))}
	base := bases[vsym.Choose("base", len(bases))]
	off := new(saferith.Nat).SetUint64(uint64(vsym.Choose("offset", 4)))
	x := new(saferith.Nat).Add(base, off, 530)
	if vsym.Choose("below", 2) == 1 {
		x = new(saferith.Nat).Sub(base, new(saferith.Nat).SetUint64(1), 530)
	}
	got := group.NewScalar().SetNat(x)
	residue := new(saferith.Nat).Mod(x, q)
	_, _, lt := residue.Cmp(qn)
	vsym.Assert(lt == 1, "residue below q")
	want := group.NewScalar().SetNat(residue)
	vsym.Assert(got.Equal(want), "SetNat(x) is the scalar x mod q")
	gb, _ := got.MarshalBinary()
	vsym.Assert(vsym.BytesEq(gb[32-len(residue.Bytes()):], residue.Bytes()) || len(residue.Bytes()) > 32, "encoding of SetNat(x) is the big-endian residue")
	vsym.Reach("setnat-checked")
}
