//go:build verif

package curve

import (
	"github.com/cronokirby/saferith"
	"github.com/taurusgroup/multi-party-sig/internal/vsym"
)

func pow2Bytes(bit int) []byte {
	b := make([]byte, bit/8+1)
	b[0] = 1 << uint(bit%8)
	return b
}

// H_C16_SetNatReduces: Scalar.SetNat(x) is x mod q for numbers of any length — in particular for the 33..48-byte values
// that long party identifiers and over-long hashes produce (decred's SetByteSlice silently truncates inputs longer than
// 32 bytes, so the reduction has to happen before). Concrete lattice around q, 2^256 and beyond; the expected value is
// the scalar of the residue computed separately (exact integers).
func H_C16_SetNatReduces() {
	group := Secp256k1{}
	q := group.Order()
	qn := q.Nat()
	bases := []*saferith.Nat{new(saferith.Nat).SetUint64(2), new(saferith.Nat).SetNat(qn), new(saferith.Nat).SetBytes(pow2Bytes(256)),
		new(saferith.Nat).SetBytes(pow2Bytes(264)), new(saferith.Nat).SetBytes(pow2Bytes(300)), new(saferith.Nat).Mul(qn, qn, 520),
		new(saferith.Nat).SetBytes([]byte("urn:custody:eu-west-1:production:signer-node-01"))}
	base := bases[vsym.Choose("base", len(bases))]
	off := new(saferith.Nat).SetUint64(uint64(vsym.Choose("offset", 4)))
	x := new(saferith.Nat).Add(base, off, 530)
	if vsym.Choose("below", 2) == 1 {
		x = new(saferith.Nat).Sub(base, new(saferith.Nat).SetUint64(1), 530)
	}
	got := group.NewScalar().SetNat(x)
	residue := new(saferith.Nat).Mod(x, q)
	_, _, lt := residue.Cmp(qn)
	vsym.Assert(lt == 1, "residue below q")
	want := group.NewScalar().SetNat(residue)
	vsym.Assert(got.Equal(want), "SetNat(x) is the scalar x mod q")
	gb, _ := got.MarshalBinary()
	vsym.Assert(vsym.BytesEq(gb[32-len(residue.Bytes()):], residue.Bytes()) || len(residue.Bytes()) > 32, "encoding of SetNat(x) is the big-endian residue")
	vsym.Reach("setnat-checked")
}

// H_C16_PointEqual: the real Secp256k1Point.Equal on concrete points k*G (lattice of k incl. 1, 2, q-1 and mid-range
// values): a point equals itself reached through a different computation (so a different projective representation),
// never equals its negation (same X, opposite Y) or a different point, and the identity equals only the identity. Every
// share / commitment comparison of the protocols (VSS check, decommitted points, Delta = delta*G) ends in this function.
func H_C16_PointEqual() {
	group := Secp256k1{}
	one := group.NewScalar().SetNat(new(saferith.Nat).SetUint64(1))
	ks := []Scalar{one, group.NewScalar().SetNat(new(saferith.Nat).SetUint64(2)), group.NewScalar().Sub(one),
		group.NewScalar().SetNat(new(saferith.Nat).SetUint64(0xdeadbeefcafe)), group.NewScalar().SetNat(new(saferith.Nat).SetBytes(pow2Bytes(200)))}
	k := ks[vsym.Choose("k", len(ks))]
	P := k.ActOnBase()
	// the same point by another route: (k-1)*G + G
	km1 := group.NewScalar().Set(k).Sub(one)
	P2 := km1.ActOnBase().Add(one.ActOnBase())
	vsym.Assert(P.Equal(P2) && P2.Equal(P), "k*G equals (k-1)*G + G")
	neg := P.Negate()
	vsym.Assert(!P.Equal(neg) && !neg.Equal(P), "a point never equals its negation")
	vsym.Assert(neg.Equal(group.NewScalar().Set(k).Negate().ActOnBase()), "-(k*G) equals (-k)*G")
	other := group.NewScalar().Set(k).Add(one).ActOnBase()
	vsym.Assert(!P.Equal(other), "k*G differs from (k+1)*G")
	id := group.NewPoint()
	vsym.Assert(!P.Equal(id) && !id.Equal(P) && id.Equal(P.Add(neg)), "the identity equals only the identity")
	pb, _ := P.MarshalBinary()
	nb, _ := neg.MarshalBinary()
	vsym.Assert(!vsym.BytesEq(pb, nb), "a point and its negation have different encodings")
	vsym.Reach("pointequal-checked")
}
