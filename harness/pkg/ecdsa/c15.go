//go:build verif

package ecdsa

import (
	"github.com/cronokirby/saferith"
	"github.com/taurusgroup/multi-party-sig/internal/vsym"
	"github.com/taurusgroup/multi-party-sig/pkg/math/curve"
	"github.com/taurusgroup/multi-party-sig/pkg/party"
)

var c15IDs = []party.ID{"a", "b"}

func c15Scalar(name string) (curve.Scalar, bool) {
	group := curve.Secp256k1{}
	if vsym.Choose(name, 2) == 0 {
		return group.NewScalar(), true
	}
	return group.NewScalar().SetNat(new(saferith.Nat).SetUint64(5)), false
}

// c15Points draws a table: every party absent, nil, identity, or a valid point.
func c15Points(name string) (map[party.ID]curve.Point, map[party.ID]int) {
	group := curve.Secp256k1{}
	pts := map[party.ID]curve.Point{}
	kinds := map[party.ID]int{}
	for _, id := range c15IDs {
		k := vsym.Choose(name+".kind", 3) // 0 absent, 2 identity, 3 valid (decoded tables never hold nil points)
		if k > 0 {
			k++
		}
		kinds[id] = k
		switch k {
		case 1:
			pts[id] = nil
		case 2:
			pts[id] = group.NewPoint()
		case 3:
			pts[id] = group.NewScalar().SetNat(new(saferith.Nat).SetUint64(7)).ActOnBase()
		}
	}
	return pts, kinds
}

// H_C15_PreSigValidate: a presignature restored with arbitrary table membership and degenerate values passes Validate
// only if it satisfies the validity rules: both tables cover exactly the same parties with non-identity points, R is
// not the identity, the shares are non-zero, and the owner's identifier is present. Validate never panics.
func H_C15_PreSigValidate() {
	group := curve.Secp256k1{}
	rbar, kr := c15Points("rbar")
	s, ks := c15Points("s")
	R := group.NewPoint()
	rIdent := vsym.Choose("R", 2) == 0
	if !rIdent {
		R = group.NewBasePoint()
	}
	k, kz := c15Scalar("kshare")
	chi, cz := c15Scalar("chishare")
	pmR, pmS := party.EmptyPointMap(group), party.EmptyPointMap(group)
	pmR.Points, pmS.Points = rbar, s
	sig := &PreSignature{ID: make([]byte, 32), R: R, RBar: pmR, S: pmS, KShare: k, ChiShare: chi}
	tableNil := false
	switch vsym.Choose("tablenil", 3) { // a CBOR null for a table field leaves a nil pointer
	case 1:
		sig.RBar, tableNil = nil, true
	case 2:
		sig.S, tableNil = nil, true
	}
	sig.ID[0] = 1
	var err error
	panicked := vsym.ExpectPanic(func() { err = sig.Validate() })
	vsym.Assert(!panicked, "Validate never panics on degenerate material")
	good := !rIdent && !kz && !cz && !tableNil
	n := 0
	for _, p := range c15IDs {
		if kr[p] != ks[p] && (kr[p] == 0 || ks[p] == 0) {
			good = false // a party in one table only
		}
		if kr[p] != 0 && kr[p] != 3 {
			good = false
		}
		if ks[p] != 0 && ks[p] != 3 {
			good = false
		}
		if kr[p] == 3 {
			n++
		}
	}
	if !panicked {
		vsym.Assert(vsym.Implies(err == nil, good), "Validate accepts only presignatures that satisfy the validity rules")
		if good && n > 0 {
			vsym.Assert(err == nil, "a well-formed presignature is accepted")
		}
	}
	vsym.Reach("presig-validate-checked")
}
