//go:build verif

package ecdsa

import (
	"crypto/rand"

	"github.com/taurusgroup/multi-party-sig/internal/vsym"
	"github.com/taurusgroup/multi-party-sig/pkg/math/curve"
	"github.com/taurusgroup/multi-party-sig/pkg/math/sample"
)

// validSig builds a textbook ECDSA signature (R = k*G, s = k^-1 (m + r x)) for symbolic k, x and digest.
func validSig(hash []byte) (sig Signature, X curve.Point, x, k curve.Scalar) {
	group := curve.Secp256k1{}
	x = sample.Scalar(rand.Reader, group)
	k = sample.Scalar(rand.Reader, group)
	X = x.ActOnBase()
	R := k.ActOnBase()
	r := R.XScalar()
	m := curve.FromHash(group, hash)
	s := group.NewScalar().Set(r).Mul(x).Add(m).Mul(group.NewScalar().Set(k).Invert())
	return Signature{R: R, S: s}, X, x, k
}

// H_C16_EcdsaVerify: Verify accepts exactly when s^-1 (m*G + r*X) = R for the transmitted nonce point, and rejects
// zero r or s (field mode: all values symbolic).
func H_C16_EcdsaVerify() {
	group := curve.Secp256k1{}
	hash := []byte("0123456789abcdef0123456789abcdef")
	sig, X, _, _ := validSig(hash)
	vsym.Assert(sig.Verify(X, hash), "a signature satisfying the standard equation is accepted")
	switch vsym.Choose("perturb", 7) {
	case 0: // s shifted
		bad := Signature{R: sig.R, S: group.NewScalar().Set(sig.S).Add(sample.Scalar(rand.Reader, group))}
		vsym.Assert(!bad.Verify(X, hash), "altered s is rejected")
	case 1: // another nonce point
		bad := Signature{R: sample.Scalar(rand.Reader, group).ActOnBase(), S: sig.S}
		vsym.Assert(!bad.Verify(X, hash), "altered R is rejected")
	case 2: // the negated nonce point has the same x coordinate but is not the transmitted point's equation
		bad := Signature{R: sig.R.Negate(), S: sig.S}
		vsym.Assert(!bad.Verify(X, hash), "R with flipped parity is rejected")
	case 3: // another key
		vsym.Assert(!sig.Verify(sample.Scalar(rand.Reader, group).ActOnBase(), hash), "another public key is rejected")
	case 4: // another message
		vsym.Assert(!sig.Verify(X, []byte("another message hash of 32 bytes")), "another message is rejected")
	case 5: // s = 0
		bad := Signature{R: sig.R, S: group.NewScalar()}
		vsym.Assert(!bad.Verify(X, hash), "s = 0 is rejected")
	case 6: // (-R, -s) is the other valid encoding of the same signature
		ok := Signature{R: sig.R.Negate(), S: group.NewScalar().Set(sig.S).Negate()}
		vsym.Assert(ok.Verify(X, hash), "(-R, -s) satisfies the equation and is accepted")
	}
	vsym.Reach("ecdsa-verify-checked")
}

// H_C16_SigEthereum: the Ethereum export is 65 bytes r || s || v with r = x(R), low s, v in {0,1} equal to the parity
// of the nonce point that matches the exported s; standard public-key recovery from (r, s, v, m) returns the signing
// key; and the signature object is still valid afterwards.
func H_C16_SigEthereum() {
	group := curve.Secp256k1{}
	hash := []byte("0123456789abcdef0123456789abcdef")
	sig, X, _, _ := validSig(hash)
	xR := sig.R.(*curve.Secp256k1Point).XBytes()
	out, err := sig.SigEthereum()
	vsym.Assert(err == nil && len(out) == 65, "65 bytes")
	vsym.Assert(vsym.BytesEq(out[:32], xR), "bytes 0..32 are x(R)")
	vsym.Assert(out[64] == 0 || out[64] == 1, "recovery id is 0 or 1")
	s := group.NewScalar()
	vsym.Assert(s.UnmarshalBinary(out[32:64]) == nil, "s decodes")
	vsym.Assert(!s.IsOverHalfOrder(), "exported s is in the lower half")
	// standard recovery: R' = point with x = r and parity v; X' = r^-1 (s R' - m G)
	enc := append([]byte{out[64] + 2}, out[:32]...)
	Rrec := group.NewPoint()
	vsym.Assert(Rrec.UnmarshalBinary(enc) == nil, "recovered nonce point decodes")
	r := Rrec.XScalar()
	m := curve.FromHash(group, hash)
	Xrec := group.NewScalar().Set(r).Invert().Act(s.Act(Rrec).Sub(m.ActOnBase()))
	vsym.Assert(Xrec.Equal(X), "public key recovery returns the signing key")
	vsym.Assert(sig.Verify(X, hash), "the signature object is still valid after the export")
	vsym.Reach("sigethereum-checked")
}

// H_C16_FromHash: the digest-to-scalar conversion takes the leftmost min(len, 32) bytes as a big-endian integer
// (SEC 1 / OpenSSL rule for a 256-bit order), for every digest length 1..40.
func H_C16_FromHash() {
	group := curve.Secp256k1{}
	h := vsym.Bytes("digest", 1, 40)
	got := curve.FromHash(group, h)
	left := h
	if len(left) > 32 {
		left = left[:32]
	}
	padded := make([]byte, 32)
	copy(padded[32-len(left):], left)
	want := group.NewScalar()
	vsym.Assume(want.UnmarshalBinary(padded) == nil)
	vsym.Assert(got.Equal(want), "FromHash = leftmost min(len,32) bytes as an integer")
	vsym.Reach("fromhash-checked")
}
