//go:build verif

package hash

import (
	"math/big"

	"github.com/taurusgroup/multi-party-sig/internal/vsym"
)

// H_Smoke: engine self-check (arithmetic, slices, maps, hash model).
func H_Smoke() {
	x := vsym.Int("x", 0, 100)
	y := x*2 + 1
	vsym.Assert(y%2 == 1, "odd")
	b := vsym.Bytes("b", 0, 3)
	h := New()
	_ = h.WriteAny(b)
	s1 := h.Sum()
	h2 := New()
	_ = h2.WriteAny(b)
	s2 := h2.Sum()
	vsym.Assert(vsym.BytesEq(s1, s2), "same input same digest")
	vsym.Reach("end")
}

// H_SmokeBad must produce a violation (used by the engine self-test).
func H_SmokeBad() {
	x := vsym.Int("x", 0, 100)
	vsym.Assert(x != 37, "x is not 37")
}

// H_FramePrefixFree: the frame WriteAny emits for one item is a prefix code.
// stream(item1) == stream(item2) || rest  =>  item1 == item2 (domain and data) and rest empty.
// By the standard argument a prefix code makes concatenation injective on item sequences.
func H_FramePrefixFree() {
	dl := vsym.Param("dom", 2)
	xl := vsym.Param("data", 3)
	rl := vsym.Param("rest", 3)
	d1 := vsym.String("d1", 0, dl)
	x1 := vsym.Bytes("x1", 0, xl)
	d2 := vsym.String("d2", 0, dl)
	x2 := vsym.Bytes("x2", 0, xl)
	rest := vsym.Bytes("rest", 0, rl)

	h1 := New()
	vsym.Assume(h1.WriteAny(&BytesWithDomain{d1, x1}) == nil)
	h2 := New()
	vsym.Assume(h2.WriteAny(&BytesWithDomain{d2, x2}) == nil)
	_, _ = h2.h.Write(rest)

	same := vsym.And(vsym.StrEq(d1, d2), vsym.And(vsym.BytesEq(x1, x2), len(rest) == 0))
	vsym.Assert(vsym.Implies(vsym.BytesEq(h1.Sum(), h2.Sum()), same), "frame is a prefix code")
	vsym.Reach("frame-compared")
}

// H_TwoItems: two-item sequences with equal digests are equal item by item (direct statement, small bound).
func H_TwoItems() {
	dl := vsym.Param("dom", 1)
	xl := vsym.Param("data", 2)
	a1 := &BytesWithDomain{vsym.String("da1", 0, dl), vsym.Bytes("a1", 0, xl)}
	a2 := &BytesWithDomain{vsym.String("da2", 0, dl), vsym.Bytes("a2", 0, xl)}
	b1 := &BytesWithDomain{vsym.String("db1", 0, dl), vsym.Bytes("b1", 0, xl)}
	b2 := &BytesWithDomain{vsym.String("db2", 0, dl), vsym.Bytes("b2", 0, xl)}
	hA := New()
	vsym.Assume(hA.WriteAny(a1, a2) == nil)
	hB := New()
	vsym.Assume(hB.WriteAny(b1, b2) == nil)
	same := vsym.And(
		vsym.And(vsym.StrEq(a1.TheDomain, b1.TheDomain), vsym.BytesEq(a1.Bytes, b1.Bytes)),
		vsym.And(vsym.StrEq(a2.TheDomain, b2.TheDomain), vsym.BytesEq(a2.Bytes, b2.Bytes)))
	vsym.Assert(vsym.Implies(vsym.BytesEq(hA.Sum(), hB.Sum()), same), "two-item sequences injective")
	vsym.Reach("two-items-compared")
}

// H_SplitMerge: one item vs two items never collide (merging/splitting changes the digest),
// and raw []byte vs big-int style domains are separated.
func H_SplitMerge() {
	xl := vsym.Param("data", 3)
	a := vsym.Bytes("a", 0, 2*xl)
	b1 := vsym.Bytes("b1", 0, xl)
	b2 := vsym.Bytes("b2", 0, xl)
	hA := New()
	vsym.Assume(hA.WriteAny(a) == nil)
	hB := New()
	vsym.Assume(hB.WriteAny(b1, b2) == nil)
	vsym.Assert(vsym.Not(vsym.BytesEq(hA.Sum(), hB.Sum())), "one item never equals two items")
	vsym.Reach("split-compared")
}

// H_CommitBinding: Decommit(c, d', x') with (d', x') != (d, x) is false; order of items matters.
// Assumed (stated in evidence): first byte of the commitment digest and of the decommitments is non-zero, so that
// the all-zero scan of Validate returns at once (the zero cases are H_CommitValidate's subject).
func H_CommitBinding() {
	xl := vsym.Param("data", 2)
	x1 := vsym.Bytes("x1", 0, xl)
	x2 := vsym.Bytes("x2", 0, xl)
	y1 := vsym.Bytes("y1", 0, xl)
	y2 := vsym.Bytes("y2", 0, xl)
	ctx := vsym.Bytes("ctx", 0, 1)
	h := New()
	_ = h.WriteAny(ctx)
	c, d, err := h.Commit(x1, x2)
	vsym.Assume(err == nil)
	vsym.Assert(len(c) == DigestLengthBytes && len(d) == 32, "lengths")
	vsym.Assume(c[0] != 0)
	vsym.Assume(d[0] != 0)
	// honest opening works
	vsym.Assert(h.Decommit(c, d, x1, x2), "honest opening accepted")
	// any other opening
	d2 := Decommitment(vsym.Bytes("d2", 32, 32))
	vsym.Assume(d2[0] != 0)
	ok := h.Decommit(c, d2, y1, y2)
	same := vsym.And(vsym.BytesEq(d, d2), vsym.And(vsym.BytesEq(x1, y1), vsym.BytesEq(x2, y2)))
	vsym.Assert(vsym.Implies(ok, same), "commitment opens only to its own tuple and decommitment")
	// swapped order
	okSwap := h.Decommit(c, d, x2, x1)
	vsym.Assert(vsym.Implies(okSwap, vsym.BytesEq(x1, x2)), "order of items matters")
	// other context
	ctx2 := vsym.Bytes("ctx2", 0, 1)
	hh := New()
	_ = hh.WriteAny(ctx2)
	okCtx := hh.Decommit(c, d, x1, x2)
	vsym.Assert(vsym.Implies(okCtx, vsym.BytesEq(ctx, ctx2)), "commitment bound to its hash context")
	// a one-item opening never opens a two-item commitment
	okMerge := h.Decommit(c, d, append(append([]byte{}, x1...), x2...))
	vsym.Assert(vsym.Not(okMerge), "merged items do not open")
	vsym.Reach("commit-compared")
}

// H_CommitValidate: wrong-length or all-zero commitments / decommitments are refused.
func H_CommitValidate() {
	c := Commitment(vsym.Bytes("c", 63, 65))
	d := Decommitment(vsym.Bytes("d", 31, 33))
	x := vsym.Bytes("x", 0, 1)
	h := New()
	zeroC := true
	for _, b := range c {
		zeroC = vsym.And(zeroC, b == 0)
	}
	zeroD := true
	for _, b := range d {
		zeroD = vsym.And(zeroD, b == 0)
	}
	okC := vsym.MergeBool(func() bool { return c.Validate() == nil })
	okD := vsym.MergeBool(func() bool { return d.Validate() == nil })
	vsym.Assert(okC == vsym.And(len(c) == 64, vsym.Not(zeroC)), "Commitment.Validate accepts exactly 64 bytes, not all zero")
	vsym.Assert(okD == vsym.And(len(d) == 32, vsym.Not(zeroD)), "Decommitment.Validate accepts exactly 32 bytes, not all zero")
	ok := vsym.MergeBool(func() bool { return h.Decommit(c, d, x) })
	vsym.Assert(vsym.Implies(ok, vsym.And(okC, okD)), "malformed commitment/decommitment refused by Decommit")
	vsym.Reach("validate-compared")
}

// H_CommitBadItem: an opening that contains an item the transcript cannot absorb (nil byte string, nil big integer,
// unsupported type, empty identifier-like writer) is refused, whatever follows it.
func H_CommitBadItem() {
	x1 := vsym.Bytes("x1", 0, 2)
	h := New()
	c, d, err := h.Commit(x1)
	vsym.Assume(err == nil)
	vsym.Assume(c[0] != 0)
	vsym.Assume(d[0] != 0)
	vsym.Assert(h.Decommit(c, d, x1), "honest opening accepted")
	var bad interface{}
	switch vsym.Choose("bad", 4) {
	case 0:
		bad = []byte(nil)
	case 1:
		bad = (*big.Int)(nil)
	case 2:
		bad = 42 // unsupported type
	case 3:
		bad = &BytesWithDomain{TheDomain: "x", Bytes: nil}
	}
	y := vsym.Bytes("y", 0, 2)
	vsym.Assert(!h.Decommit(c, d, x1, bad), "an unabsorbable item makes the opening fail")
	vsym.Assert(!h.Decommit(c, d, x1, bad, y), "items after an unabsorbable one do not matter")
	_, _, err2 := h.Commit(x1, bad)
	vsym.Assert(err2 != nil, "Commit refuses unabsorbable items")
	vsym.Reach("baditem-compared")
}
