//go:build verif

package paillier

import (
	"github.com/cronokirby/saferith"
	"github.com/taurusgroup/multi-party-sig/internal/vsym"
)

// fixed real-size key (the library's own test key from pkg/zk/default.go; copied to avoid an import cycle)
func c12Key() *SecretKey {
	p, _ := new(saferith.Nat).SetHex("F6BECB15713344353E6457D6E787478B249D49AE7843CC883028611F3AAD341342E189995C060115AD2CF1B16D06254755CF6BD79E9C965B425307A2749BC7E1271FE2486327D94376E5EB25F713C61E2E5C8145C55368522EF7B67F095CE9D256430773B3179B3F3C53FDD5DA24AC84D0B38B8C42C13C020A6177FFA400FAB3")
	q, _ := new(saferith.Nat).SetHex("D4A0E9C57B78C941B457D22A824082C85761ACF425395C4179EB7D016015C9ADE846D8A2A75055A8DB6FD3E6FB770547FE78CE87368B0847EC60999554A4BD019E90A3EE727231F7A0A22CB8CEE59F27504F1048A8FF5F6407C45DBAE66A5A33A0D064776A479D586682C2BD2D1BC0B6AD456E620C5E7609CCA12B27C20BE89F")
	return NewSecretKeyFromPrimes(p, q)
}

// H_C12_EncRange: EncWithNonce refuses (panics) exactly the plaintexts with |m| > (N-1)/2, for every integer m
// (symbolic, up to 2100 bits) and the real 2048-bit modulus.
func H_C12_EncRange() {
	sk := c12Key()
	pk := sk.PublicKey
	m := vsym.SymInt("m", 2100)
	nonce := new(saferith.Nat).SetUint64(2)
	panicked := vsym.ExpectPanic(func() { _ = pk.EncWithNonce(m, nonce) })
	// reference: (N-1)/2 computed independently
	n := pk.N().Nat()
	half := new(saferith.Nat).Sub(n, new(saferith.Nat).SetUint64(1), -1)
	half.Rsh(half, 1, -1)
	gt, _, _ := m.Abs().Cmp(half)
	vsym.Assert(panicked == (gt == 1), "encryption is refused exactly outside [-(N-1)/2, (N-1)/2]")
	vsym.Reach("encrange-checked")
}

func c12Int(v int64) *saferith.Int {
	if v < 0 {
		return new(saferith.Int).SetUint64(uint64(-v)).Neg(1)
	}
	return new(saferith.Int).SetUint64(uint64(v))
}

// H_C12_Lattice: the real Enc/Dec/Add/Mul/DecWithRandomness/ValidateCiphertexts code executed with exact big-integer
// arithmetic on the boundary lattice of plaintexts (0, +-1, +-(N-1)/2, +-2^k) — a concrete cross-check of the
// contract that the ideal-Paillier model assumes (not a solver result).
func H_C12_Lattice() {
	sk := c12Key()
	pk := sk.PublicKey
	n := pk.N().Nat()
	half := new(saferith.Nat).Sub(n, new(saferith.Nat).SetUint64(1), -1)
	half.Rsh(half, 1, -1)
	halfI := new(saferith.Int).SetNat(half)
	negHalf := new(saferith.Int).SetNat(half).Neg(1)
	lattice := []*saferith.Int{c12Int(0), c12Int(1), c12Int(-1), halfI, negHalf, c12Int(1 << 40), c12Int(-(1 << 40))}
	nonce := new(saferith.Nat).SetUint64(3)
	for _, m := range lattice {
		ct := pk.EncWithNonce(m, nonce)
		vsym.Assert(pk.ValidateCiphertexts(ct), "ciphertext of an in-range plaintext validates")
		d, err := sk.Dec(ct)
		vsym.Assert(err == nil && d.Eq(m) == 1, "Dec(Enc(m)) = m on the boundary lattice")
		d2, r, err2 := sk.DecWithRandomness(ct)
		vsym.Assert(err2 == nil && d2.Eq(m) == 1, "DecWithRandomness returns m")
		vsym.Assert(pk.EncWithNonce(d2, r).Equal(ct), "recovered randomness re-encrypts to the same ciphertext")
	}
	// homomorphic addition and scalar multiplication inside the range
	a, b := c12Int(1<<40), c12Int(-12345)
	ca, cb := pk.EncWithNonce(a, nonce), pk.EncWithNonce(b, nonce)
	sum, _ := sk.Dec(ca.Clone().Add(pk, cb))
	vsym.Assert(sum.Eq(new(saferith.Int).Add(a, b, -1)) == 1, "Dec(a (+) b) = a + b")
	prod, _ := sk.Dec(ca.Clone().Mul(pk, b))
	vsym.Assert(prod.Eq(new(saferith.Int).Mul(a, b, -1)) == 1, "Dec(b (*) a) = a * b")
	// scalar multiplication on the lattice of scalars, including 0 (the product must be an encryption of 0, not the
	// unchanged ciphertext) and negative scalars
	for _, k := range []*saferith.Int{c12Int(0), c12Int(1), c12Int(-1), c12Int(2), c12Int(-3), c12Int(1 << 40)} {
		for _, m := range []*saferith.Int{c12Int(0), c12Int(1), c12Int(-7), c12Int(12345)} {
			got, err := sk.Dec(pk.EncWithNonce(m, nonce).Mul(pk, k))
			vsym.Assert(err == nil && got.Eq(new(saferith.Int).Mul(k, m, -1)) == 1, "Dec(k (*) Enc(m)) = k*m for k, m on the lattice (incl. k = 0)")
		}
	}
	// wrap-around at the boundary: (N-1)/2 + 1 decrypts to -(N-1)/2
	wrap, _ := sk.Dec(pk.EncWithNonce(halfI, nonce).Add(pk, pk.EncWithNonce(c12Int(1), nonce)))
	vsym.Assert(wrap.Eq(negHalf) == 1, "sum just out of range wraps symmetrically")
	// validation boundaries
	zero := &Ciphertext{c: new(saferith.Nat).SetUint64(0)}
	n2 := &Ciphertext{c: pk.ModulusSquared().Nat()}
	multP := &Ciphertext{c: new(saferith.Nat).SetNat(sk.P())}
	one := &Ciphertext{c: new(saferith.Nat).SetUint64(1)}
	vsym.Assert(!pk.ValidateCiphertexts(zero), "0 is not a valid ciphertext")
	vsym.Assert(!pk.ValidateCiphertexts(n2), "N^2 is not a valid ciphertext")
	vsym.Assert(!pk.ValidateCiphertexts(multP), "a multiple of p is not a valid ciphertext")
	vsym.Assert(pk.ValidateCiphertexts(one), "1 is a valid ciphertext")
	vsym.Assert(!pk.ValidateCiphertexts(nil), "nil is not a valid ciphertext")
	vsym.Reach("lattice-checked")
}
