//go:build verif && verifreplay

package pool

import (
	"fmt"
	"runtime"
	"sync/atomic"
	"time"
)

// VerifStress is the native reproduction for schedules found by the bounded model checker: the same caller program
// is run many times on real goroutines with the scheduler perturbed; a call that does not return within the watchdog
// period (lost worker / deadlock) or returns a wrong result reproduces the violation.
func VerifStress(name string) (reproduced bool, what string) {
	var w, c, calls int
	search := false
	n, _ := fmt.Sscanf(name, "H_Par_W%d_C%d", &w, &c)
	calls = 1
	if n != 2 {
		if n, _ = fmt.Sscanf(name, "H_Par2_W%d_C%d", &w, &c); n == 2 {
			calls = 2
		} else if n, _ = fmt.Sscanf(name, "H_Search_W%d_C%d", &w, &c); n == 2 {
			search = true
		} else if n, _ = fmt.Sscanf(name, "H_Search2_W%d_C%d", &w, &c); n == 2 {
			search, calls = true, 2
		} else {
			return false, "no native stress for " + name
		}
	}
	calls += 3 // lost workers show up as a hang on a later call
	deadline := time.Now().Add(40 * time.Second)
	for iter := 0; time.Now().Before(deadline) && iter < 20000; iter++ {
		runtime.GOMAXPROCS(1 + iter%4)
		p := NewPool(w)
		done := make(chan string, 1)
		go func() {
			for k := 0; k < calls; k++ {
				if search {
					// vary how long a candidate takes: instant, yielding, or long enough for all workers to be inside
					// the task at once (several successes in the same window)
					variant := iter % 3
					res := p.Search(c, func() interface{} {
						switch variant {
						case 1:
							runtime.Gosched()
						case 2:
							time.Sleep(200 * time.Microsecond)
						}
						return 1
					})
					for i, r := range res {
						if r == nil {
							done <- fmt.Sprintf("Search result %d is nil", i)
							return
						}
					}
				} else {
					variant := iter % 3
					res := p.Parallelize(c, func(i int) interface{} {
						switch variant {
						case 1:
							runtime.Gosched()
						case 2:
							time.Sleep(200 * time.Microsecond)
						}
						return i
					})
					for i, r := range res {
						if r != i {
							done <- fmt.Sprintf("Parallelize result %d is %v", i, r)
							return
						}
					}
				}
			}
			// a lost worker does not necessarily hang a later call (the remaining workers take over): check that all w
			// workers can still be busy at the same time
			if w > 1 {
				var arrived int64
				all := make(chan struct{})
				missing := int64(0)
				p.Parallelize(w, func(i int) interface{} {
					if atomic.AddInt64(&arrived, 1) == int64(w) {
						close(all)
					}
					select {
					case <-all:
					case <-time.After(500 * time.Millisecond):
						atomic.StoreInt64(&missing, 1)
					}
					return i
				})
				if atomic.LoadInt64(&missing) == 1 {
					done <- fmt.Sprintf("a worker was lost: %d tasks can no longer run at the same time on %d workers", w, w)
					return
				}
			}
			done <- ""
		}()
		select {
		case msg := <-done:
			if msg != "" {
				return true, msg
			}
		case <-time.After(3 * time.Second):
			return true, fmt.Sprintf("call did not return within 3s on iteration %d (workers lost / deadlock)", iter)
		}
		p.TearDown()
	}
	return false, "no failure in the stress period"
}
