//go:build verif && verifreplay

package pool

import (
	"fmt"
	"runtime"
	"time"
)

// VerifStress is the native reproduction for schedules found by the bounded model checker: the same caller program
// is run many times on real goroutines with the scheduler perturbed; a call that does not return within the watchdog
// period (lost worker / deadlock) or returns a wrong result reproduces the violation.
func VerifStress(name string) (reproduced bool, what string) {
	var w, c, calls int
	search := false
	n, _ := fmt.Sscanf(name, "H_Par_W%d_C%d", &w, &c)
	calls = 1
	if n != 2 {
		if n, _ = fmt.Sscanf(name, "H_Par2_W%d_C%d", &w, &c); n == 2 {
			calls = 2
		} else if n, _ = fmt.Sscanf(name, "H_Search_W%d_C%d", &w, &c); n == 2 {
			search = true
		} else if n, _ = fmt.Sscanf(name, "H_Search2_W%d_C%d", &w, &c); n == 2 {
			search, calls = true, 2
		} else {
			return false, "no native stress for " + name
		}
	}
	calls += 3 // lost workers show up as a hang on a later call
	deadline := time.Now().Add(40 * time.Second)
	for iter := 0; time.Now().Before(deadline) && iter < 20000; iter++ {
		runtime.GOMAXPROCS(1 + iter%4)
		p := NewPool(w)
		done := make(chan string, 1)
		go func() {
			for k := 0; k < calls; k++ {
				if search {
					res := p.Search(c, func() interface{} { return 1 })
					for i, r := range res {
						if r == nil {
							done <- fmt.Sprintf("Search result %d is nil", i)
							return
						}
					}
				} else {
					res := p.Parallelize(c, func(i int) interface{} { return i })
					for i, r := range res {
						if r != i {
							done <- fmt.Sprintf("Parallelize result %d is %v", i, r)
							return
						}
					}
				}
			}
			done <- ""
		}()
		select {
		case msg := <-done:
			if msg != "" {
				return true, msg
			}
		case <-time.After(3 * time.Second):
			return true, fmt.Sprintf("call did not return within 3s on iteration %d (workers lost / deadlock)", iter)
		}
		p.TearDown()
	}
	return false, "no failure in the stress period"
}
