//go:build verif

package pool

// Caller-thread programs for the bounded model checker (gosym bmc). The task bodies are abstract in the model.

func task(i int) interface{} { return i }

func taskS() interface{} { return 1 }

func H_Par_W1_C1() { p := NewPool(1); _ = p.Parallelize(1, task) }
func H_Par_W1_C2() { p := NewPool(1); _ = p.Parallelize(2, task) }
func H_Par_W2_C1() { p := NewPool(2); _ = p.Parallelize(1, task) }
func H_Par_W2_C2() { p := NewPool(2); _ = p.Parallelize(2, task) }
func H_Par_W2_C3() { p := NewPool(2); _ = p.Parallelize(3, task) }
func H_Par_W3_C2() { p := NewPool(3); _ = p.Parallelize(2, task) }

// two consecutive calls on the same pool
func H_Par2_W1_C1() { p := NewPool(1); _ = p.Parallelize(1, task); _ = p.Parallelize(1, task) }
func H_Par2_W2_C2() { p := NewPool(2); _ = p.Parallelize(2, task); _ = p.Parallelize(2, task) }
func H_Par2_W2_C1() { p := NewPool(2); _ = p.Parallelize(1, task); _ = p.Parallelize(1, task) }

func H_Search_W1_C1() { p := NewPool(1); _ = p.Search(1, taskS) }
func H_Search_W2_C1() { p := NewPool(2); _ = p.Search(1, taskS) }
func H_Search_W2_C2() { p := NewPool(2); _ = p.Search(2, taskS) }
func H_Search2_W2_C1() { p := NewPool(2); _ = p.Search(1, taskS); _ = p.Search(1, taskS) }

// nil pool: everything on the calling goroutine
func H_Nil_Par_C2()    { var p *Pool; _ = p.Parallelize(2, task) }
func H_Nil_Search_C2() { var p *Pool; _ = p.Search(2, taskS) }

// zero tasks
func H_Par_W2_C0() { p := NewPool(2); _ = p.Parallelize(0, task) }
