//go:build verif

package zkmul

import (
	"github.com/cronokirby/saferith"
	"github.com/taurusgroup/multi-party-sig/internal/vsym"
	"github.com/taurusgroup/multi-party-sig/pkg/hash"
	"github.com/taurusgroup/multi-party-sig/pkg/math/curve"
	"github.com/taurusgroup/multi-party-sig/pkg/zk"
)

func c10u(v uint64) *saferith.Nat { return new(saferith.Nat).SetUint64(v) }
func c10i(v uint64) *saferith.Int { return new(saferith.Int).SetUint64(v) }

// H_C10_OversizedResponse: a prover that knows a valid witness but draws its mask alpha outside the honest range (here
// alpha = N + 5 or alpha = 5, chosen per path) produces a proof that satisfies every verification equation. The
// verifier must answer true or false; it must not crash when the response Z = alpha + e*x exceeds the Paillier plaintext
// range. Fully concrete (real 2048-bit arithmetic), replayed natively.
func H_C10_OversizedResponse() {
	group := curve.Secp256k1{}
	prover := zk.ProverPaillierPublic
	N := prover.N()
	x := c10i(5)
	rhoX, rho, r, s := c10u(17), c10u(19), c10u(3), c10u(7)
	X := prover.EncWithNonce(x, rhoX)
	Y := prover.EncWithNonce(c10i(9), c10u(23))
	C := Y.Clone().Mul(prover, x)
	C.Randomize(prover, rho)
	public := Public{X: X, Y: Y, C: C, Prover: prover}
	small := c10i(5)
	alpha := new(saferith.Int).SetInt(small)
	big := vsym.Choose("oversized", 2) == 1
	if big {
		alpha.Add(alpha, new(saferith.Int).SetNat(N.Nat()), -1) // alpha = N + 5: same ciphertexts as alpha = 5
	}
	A := Y.Clone().Mul(prover, alpha)
	A.Randomize(prover, r)
	commitment := &Commitment{A: A, B: prover.EncWithNonce(small, s)}
	e, _ := challenge(hash.New(), group, public, commitment)
	z := new(saferith.Int).SetInt(x)
	z.Mul(e, z, -1)
	z.Add(z, alpha, -1)
	u := prover.Modulus().ExpI(rho, e)
	u.ModMul(u, r, N)
	v := prover.Modulus().ExpI(rhoX, e)
	v.ModMul(v, s, N)
	proof := &Proof{Commitment: commitment, Z: z, U: u, V: v}
	var ok bool
	panicked := vsym.ExpectPanic(func() { ok = proof.Verify(group, hash.New(), public) })
	vsym.Assert(!panicked, "zkmul.Verify answers instead of crashing when a response exceeds the plaintext range")
	if !big {
		vsym.Assert(!panicked && ok, "the in-range proof verifies")
	}
	vsym.Reach("oversized-response-checked")
}
