//go:build verif

package zksch

import (
	"crypto/rand"

	"github.com/taurusgroup/multi-party-sig/internal/vsym"
	"github.com/taurusgroup/multi-party-sig/pkg/hash"
	"github.com/taurusgroup/multi-party-sig/pkg/math/curve"
	"github.com/taurusgroup/multi-party-sig/pkg/math/sample"
)

func ctx(tag string) *hash.Hash {
	h := hash.New()
	_ = h.WriteAny(&hash.BytesWithDomain{TheDomain: "ctx", Bytes: []byte(tag)})
	return h
}

// H_C10_Sch (field mode): the Schnorr proof of knowledge is complete for every witness and generator, and verifies only
// for the statement, generator and transcript context it was made for; commitments / responses of another valid proof
// do not fit.
func H_C10_Sch() {
	group := curve.Secp256k1{}
	x := sample.Scalar(rand.Reader, group)
	var gen curve.Point
	if vsym.Choose("gen", 2) == 1 {
		gen = sample.Scalar(rand.Reader, group).ActOnBase()
	}
	base := gen
	if base == nil {
		base = group.NewBasePoint()
	}
	X := x.Act(base)
	p := NewProof(ctx("A"), X, x, gen)
	vsym.Assert(p != nil && p.Verify(ctx("A"), X, gen), "honest proof verifies")
	y := sample.Scalar(rand.Reader, group)
	Y := y.Act(base)
	q := NewProof(ctx("A"), Y, y, gen)
	switch vsym.Choose("vary", 6) {
	case 0:
		vsym.Assert(!p.Verify(ctx("A"), Y, gen), "another statement is rejected")
	case 1:
		vsym.Assert(!p.Verify(ctx("B"), X, gen), "another transcript context is rejected")
	case 2:
		other := sample.Scalar(rand.Reader, group).ActOnBase()
		vsym.Assert(!p.Verify(ctx("A"), X, other), "another generator is rejected")
	case 3:
		mixed := &Proof{C: q.C, Z: p.Z}
		vsym.Assert(!mixed.Verify(ctx("A"), X, gen), "a commitment taken from another proof is rejected")
	case 4:
		mixed := &Proof{C: p.C, Z: q.Z}
		vsym.Assert(!mixed.Verify(ctx("A"), X, gen), "a response taken from another proof is rejected")
	case 5:
		vsym.Assert(NewProof(ctx("A"), group.NewPoint(), group.NewScalar(), gen) == nil || !NewProof(ctx("A"), group.NewPoint(), group.NewScalar(), gen).Verify(ctx("A"), group.NewPoint(), gen), "the trivial statement has no accepted proof")
	}
	vsym.Reach("sch-checked")
}
