//go:build verif

package zkmod

import (
	"math/big"

	"github.com/taurusgroup/multi-party-sig/internal/vsym"
	"github.com/taurusgroup/multi-party-sig/pkg/hash"
	"github.com/taurusgroup/multi-party-sig/pkg/zk"
)

// H_C10_ChallengeBinds: the challenge transcript of zkmod depends on the modulus, on W and on the prior transcript.
func H_C10_ChallengeBinds() {
	field := vsym.Choose("field", 3)
	run := func(alt int, ctx byte) []byte {
		n := zk.ProverPaillierPublic.N()
		w := big.NewInt(5)
		switch alt {
		case 0:
			n = zk.VerifierPaillierPublic.N()
		case 1:
			w = big.NewInt(6)
		}
		h := hash.New()
		_ = h.WriteAny(&hash.BytesWithDomain{TheDomain: "ctx", Bytes: []byte{ctx}})
		_, err := challenge(h, n, w)
		vsym.Assert(err == nil, "challenge succeeds on well-formed inputs")
		return h.Sum()
	}
	base := run(-1, 0)
	if field == 2 {
		vsym.Assert(!vsym.BytesEq(base, run(-1, 1)), "the transcript depends on the prior context")
	} else {
		vsym.Assert(!vsym.BytesEq(base, run(field, 0)), "the transcript depends on every public input and commitment field")
	}
	vsym.Reach("challenge-binds-checked")
}
