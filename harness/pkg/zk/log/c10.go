//go:build verif

package zklog

import (
	"crypto/rand"

	"github.com/taurusgroup/multi-party-sig/internal/vsym"
	"github.com/taurusgroup/multi-party-sig/pkg/hash"
	"github.com/taurusgroup/multi-party-sig/pkg/math/curve"
	"github.com/taurusgroup/multi-party-sig/pkg/math/sample"
)

func ctx(tag string) *hash.Hash {
	h := hash.New()
	_ = h.WriteAny(&hash.BytesWithDomain{TheDomain: "ctx", Bytes: []byte(tag)})
	return h
}

// H_C10_Log (field mode): completeness for every witness; every public field, the context and every proof component are
// bound.
func H_C10_Log() {
	group := curve.Secp256k1{}
	rnd := func() curve.Scalar { return sample.Scalar(rand.Reader, group) }
	a, b := rnd(), rnd()
	H := b.ActOnBase()
	pub := Public{H: H, X: a.ActOnBase(), Y: a.Act(H)}
	p := NewProof(group, ctx("A"), pub, Private{A: a, B: b})
	vsym.Assert(p.Verify(ctx("A"), pub), "honest proof verifies")
	a2, b2 := rnd(), rnd()
	H2 := b2.ActOnBase()
	pub2 := Public{H: H2, X: a2.ActOnBase(), Y: a2.Act(H2)}
	q := NewProof(group, ctx("A"), pub2, Private{A: a2, B: b2})
	other := rnd().ActOnBase()
	switch vsym.Choose("vary", 9) {
	case 0:
		vsym.Assert(!p.Verify(ctx("A"), Public{H: other, X: pub.X, Y: pub.Y}), "H is bound")
	case 1:
		vsym.Assert(!p.Verify(ctx("A"), Public{H: pub.H, X: other, Y: pub.Y}), "X is bound")
	case 2:
		vsym.Assert(!p.Verify(ctx("A"), Public{H: pub.H, X: pub.X, Y: other}), "Y is bound")
	case 3:
		vsym.Assert(!p.Verify(ctx("B"), pub), "the transcript context is bound")
	case 4:
		m := *p
		m.Commitment = &Commitment{A: q.A, B: p.B, C: p.C}
		vsym.Assert(!m.Verify(ctx("A"), pub), "commitment A from another proof is rejected")
	case 5:
		m := *p
		m.Commitment = &Commitment{A: p.A, B: q.B, C: p.C}
		vsym.Assert(!m.Verify(ctx("A"), pub), "commitment B from another proof is rejected")
	case 6:
		m := *p
		m.Commitment = &Commitment{A: p.A, B: p.B, C: q.C}
		vsym.Assert(!m.Verify(ctx("A"), pub), "commitment C from another proof is rejected")
	case 7:
		m := *p
		m.Z1 = q.Z1
		vsym.Assert(!m.Verify(ctx("A"), pub), "response Z1 from another proof is rejected")
	case 8:
		m := *p
		m.Z2 = q.Z2
		vsym.Assert(!m.Verify(ctx("A"), pub), "response Z2 from another proof is rejected")
	}
	vsym.Reach("log-checked")
}
