//go:build verif

package zkelog

import (
	"crypto/rand"

	"github.com/taurusgroup/multi-party-sig/internal/elgamal"
	"github.com/taurusgroup/multi-party-sig/internal/vsym"
	"github.com/taurusgroup/multi-party-sig/pkg/hash"
	"github.com/taurusgroup/multi-party-sig/pkg/math/curve"
	"github.com/taurusgroup/multi-party-sig/pkg/math/sample"
)

func ctx(tag string) *hash.Hash {
	h := hash.New()
	_ = h.WriteAny(&hash.BytesWithDomain{TheDomain: "ctx", Bytes: []byte(tag)})
	return h
}

// H_C10_Elog (field mode): completeness for every witness; every public field (both halves of the ElGamal ciphertext,
// the ElGamal key, the base, Y), the context and every proof component are bound.
func H_C10_Elog() {
	group := curve.Secp256k1{}
	rnd := func() curve.Scalar { return sample.Scalar(rand.Reader, group) }
	X := rnd().ActOnBase()
	H := rnd().ActOnBase()
	y := rnd()
	E, lambda := elgamal.Encrypt(X, y)
	pub := Public{E: E, ElGamalPublic: X, Base: H, Y: y.Act(H)}
	p := NewProof(group, ctx("A"), pub, Private{Y: y, Lambda: lambda})
	vsym.Assert(p.Verify(ctx("A"), pub), "honest proof verifies")
	y2 := rnd()
	E2, lambda2 := elgamal.Encrypt(X, y2)
	pub2 := Public{E: E2, ElGamalPublic: X, Base: H, Y: y2.Act(H)}
	q := NewProof(group, ctx("A"), pub2, Private{Y: y2, Lambda: lambda2})
	other := rnd().ActOnBase()
	v := pub
	switch vsym.Choose("vary", 11) {
	case 0:
		v.E = &elgamal.Ciphertext{L: other, M: E.M}
		vsym.Assert(!p.Verify(ctx("A"), v), "E.L is bound")
	case 1:
		v.E = &elgamal.Ciphertext{L: E.L, M: other}
		vsym.Assert(!p.Verify(ctx("A"), v), "E.M is bound")
	case 2:
		v.ElGamalPublic = other
		vsym.Assert(!p.Verify(ctx("A"), v), "the ElGamal key is bound")
	case 3:
		v.Base = other
		vsym.Assert(!p.Verify(ctx("A"), v), "the base is bound")
	case 4:
		v.Y = other
		vsym.Assert(!p.Verify(ctx("A"), v), "Y is bound")
	case 5:
		vsym.Assert(!p.Verify(ctx("B"), pub), "the transcript context is bound")
	case 6:
		m := *p
		m.Commitment = &Commitment{A: q.A, N: p.N, B: p.B}
		vsym.Assert(!m.Verify(ctx("A"), pub), "commitment A from another proof is rejected")
	case 7:
		m := *p
		m.Commitment = &Commitment{A: p.A, N: q.N, B: p.B}
		vsym.Assert(!m.Verify(ctx("A"), pub), "commitment N from another proof is rejected")
	case 8:
		m := *p
		m.Commitment = &Commitment{A: p.A, N: p.N, B: q.B}
		vsym.Assert(!m.Verify(ctx("A"), pub), "commitment B from another proof is rejected")
	case 9:
		m := *p
		m.Z = q.Z
		vsym.Assert(!m.Verify(ctx("A"), pub), "response Z from another proof is rejected")
	case 10:
		m := *p
		m.U = q.U
		vsym.Assert(!m.Verify(ctx("A"), pub), "response U from another proof is rejected")
	}
	vsym.Reach("elog-checked")
}
