//go:build verif

package zkdec

import (
	"github.com/cronokirby/saferith"
	"github.com/taurusgroup/multi-party-sig/internal/vsym"
	"github.com/taurusgroup/multi-party-sig/pkg/hash"
	"github.com/taurusgroup/multi-party-sig/pkg/math/curve"
	"github.com/taurusgroup/multi-party-sig/pkg/zk"
)

func c10u(v uint64) *saferith.Nat { return new(saferith.Nat).SetUint64(v) }
func c10i(v uint64) *saferith.Int { return new(saferith.Int).SetUint64(v) }

// H_C10_OversizedResponse: as for zkmul — a prover with a valid witness whose mask alpha is N + 5 instead of a value in
// the honest range satisfies the Pedersen equation; the verifier must not crash on Z1 = alpha + e*y.
func H_C10_OversizedResponse() {
	group := curve.Secp256k1{}
	prover := zk.ProverPaillierPublic
	N := prover.N()
	y := c10i(9)
	rho, r := c10u(19), c10u(3)
	mu, nu := c10i(11), c10i(13)
	C := prover.EncWithNonce(y, rho)
	public := Public{C: C, X: group.NewScalar().SetNat(y.Mod(group.Order())), Prover: prover, Aux: zk.Pedersen}
	small := c10i(5)
	alpha := new(saferith.Int).SetInt(small)
	big := vsym.Choose("oversized", 2) == 1
	if big {
		alpha.Add(alpha, new(saferith.Int).SetNat(N.Nat()), -1)
	}
	commitment := &Commitment{
		S:     public.Aux.Commit(y, mu),
		T:     public.Aux.Commit(alpha, nu),
		A:     prover.EncWithNonce(small, r),
		Gamma: group.NewScalar().SetNat(alpha.Mod(group.Order())),
	}
	e, _ := challenge(hash.New(), group, public, commitment)
	z1 := new(saferith.Int).SetInt(y)
	z1.Mul(e, z1, -1)
	z1.Add(z1, alpha, -1)
	z2 := new(saferith.Int).Mul(e, mu, -1)
	z2.Add(z2, nu, -1)
	w := prover.Modulus().ExpI(rho, e)
	w.ModMul(w, r, N)
	proof := &Proof{group: group, Commitment: commitment, Z1: z1, Z2: z2, W: w}
	var ok bool
	panicked := vsym.ExpectPanic(func() { ok = proof.Verify(hash.New(), public) })
	vsym.Assert(!panicked, "zkdec.Verify answers instead of crashing when a response exceeds the plaintext range")
	if !big {
		vsym.Assert(!panicked && ok, "the in-range proof verifies")
	}
	vsym.Reach("oversized-response-checked")
}
