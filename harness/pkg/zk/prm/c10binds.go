//go:build verif

package zkprm

import (
	"math/big"

	"github.com/taurusgroup/multi-party-sig/internal/params"
	"github.com/taurusgroup/multi-party-sig/internal/vsym"
	"github.com/taurusgroup/multi-party-sig/pkg/hash"
	"github.com/taurusgroup/multi-party-sig/pkg/pedersen"
	"github.com/taurusgroup/multi-party-sig/pkg/zk"
)

// H_C10_ChallengeBinds: the challenge transcript of zkprm depends on the Pedersen parameters, on every commitment A_i
// (first, a middle and the last index are varied) and on the prior transcript.
func H_C10_ChallengeBinds() {
	field := vsym.Choose("field", 5)
	run := func(alt int, ctx byte) []byte {
		pub := Public{Aux: zk.Pedersen}
		var A [params.StatParam]*big.Int
		for i := range A {
			A[i] = big.NewInt(int64(100 + i))
		}
		switch alt {
		case 0:
			pub.Aux = pedersen.New(zk.Pedersen.NArith(), zk.Pedersen.T(), zk.Pedersen.S())
		case 1:
			A[0] = big.NewInt(7)
		case 2:
			A[params.StatParam/2] = big.NewInt(7)
		case 3:
			A[params.StatParam-1] = big.NewInt(7)
		}
		h := hash.New()
		_ = h.WriteAny(&hash.BytesWithDomain{TheDomain: "ctx", Bytes: []byte{ctx}})
		_, err := challenge(h, pub, A)
		vsym.Assert(err == nil, "challenge succeeds on well-formed inputs")
		return h.Sum()
	}
	base := run(-1, 0)
	if field == 4 {
		vsym.Assert(!vsym.BytesEq(base, run(-1, 1)), "the transcript depends on the prior context")
	} else {
		vsym.Assert(!vsym.BytesEq(base, run(field, 0)), "the transcript depends on every public input and commitment field")
	}
	vsym.Reach("challenge-binds-checked")
}
