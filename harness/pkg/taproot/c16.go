//go:build verif

package taproot

import (
	"crypto/sha256"

	"github.com/cronokirby/saferith"
	"github.com/taurusgroup/multi-party-sig/internal/vsym"
	"github.com/taurusgroup/multi-party-sig/pkg/math/curve"
)

func refTagged(tag string, parts ...[]byte) []byte {
	th := sha256.Sum256([]byte(tag))
	h := sha256.New()
	h.Write(th[:])
	h.Write(th[:])
	for _, p := range parts {
		h.Write(p)
	}
	return h.Sum(nil)
}

// refVerify is the BIP-340 verification algorithm written out independently.
func refVerify(pk, m, sig []byte) bool {
	group := curve.Secp256k1{}
	if len(pk) != 32 || len(sig) != 64 {
		return false
	}
	P, err := group.LiftX(pk)
	if err != nil {
		return false
	}
	s := group.NewScalar()
	if s.UnmarshalBinary(sig[32:]) != nil {
		return false
	}
	e := group.NewScalar().SetNat(new(saferith.Nat).SetBytes(refTagged("BIP0340/challenge", sig[:32], pk, m)))
	R := s.ActOnBase().Sub(e.Act(P))
	if R.IsIdentity() {
		return false
	}
	Rs := R.(*curve.Secp256k1Point)
	if !Rs.HasEvenY() {
		return false
	}
	return vsym.BytesEq(Rs.XBytes(), sig[:32])
}

type constRand struct{ b []byte }

func (c constRand) Read(p []byte) (int, error) { return copy(p, c.b), nil }

// H_C16_TaprootSignVerify (field mode): a signature produced by Sign for a symbolic key passes both the library's
// Verify and the independent BIP-340 algorithm; the public key is the x-only encoding of the even-Y point; and every
// single-component perturbation is rejected by both (they agree).
func H_C16_TaprootSignVerify() {
	group := curve.Secp256k1{}
	sk, pk, err := GenKey(constRand{vsym.Bytes("seed", 32, 32)})
	vsym.Assume(err == nil)
	P, lerr := group.LiftX(pk)
	vsym.Assert(lerr == nil && P.HasEvenY(), "public key is x-only of the even-Y point")
	m := []byte("0123456789abcdef0123456789abcdef")
	sig, serr := sk.Sign(constRand{vsym.Bytes("aux", 32, 32)}, m)
	vsym.Assert(serr == nil && len(sig) == 64, "signing succeeds with 64 bytes")
	vsym.Assert(pk.Verify(sig, m), "library verification accepts the signature")
	vsym.Assert(refVerify(pk, m, sig), "BIP-340 algorithm accepts the signature")
	bad := append([]byte{}, sig...)
	m2 := m
	pk2 := pk
	switch vsym.Choose("perturb", 6) {
	case 5: // the twin signature whose nonce point is -R (odd Y, same x): s' = 2*e*d - s
		d := group.NewScalar()
		vsym.Assume(d.UnmarshalBinary(sk) == nil)
		if !d.ActOnBase().(*curve.Secp256k1Point).HasEvenY() {
			d.Negate()
		}
		e := group.NewScalar().SetNat(new(saferith.Nat).SetBytes(refTagged("BIP0340/challenge", sig[:32], pk, m)))
		two := group.NewScalar().SetNat(new(saferith.Nat).SetUint64(2))
		s0 := group.NewScalar()
		vsym.Assume(s0.UnmarshalBinary(sig[32:]) == nil)
		twin, _ := two.Mul(e).Mul(d).Sub(s0).MarshalBinary()
		copy(bad[32:], twin)
	case 0: // another s
		other, _ := group.NewScalar().SetNat(new(saferith.Nat).SetUint64(12345)).MarshalBinary()
		copy(bad[32:], other)
	case 1: // another R.x (that of the public key)
		copy(bad[:32], pk)
	case 2: // another message
		m2 = []byte("another message hash of 32 bytes")
	case 3: // another key
		_, pk2, _ = GenKey(constRand{vsym.Bytes("seed2", 32, 32)})
	case 4: // truncated
		bad = bad[:63]
	}
	lib := PublicKey(pk2).Verify(Signature(bad), m2)
	ref := refVerify(pk2, m2, bad)
	vsym.Assert(lib == ref, "library verification agrees with the BIP-340 algorithm")
	vsym.Assert(!lib, "perturbed signature is rejected")
	vsym.Reach("taproot-signverify-checked")
}

func unhex(s string) []byte {
	out := make([]byte, len(s)/2)
	for i := range out {
		var v byte
		for j := 0; j < 2; j++ {
			c := s[2*i+j]
			switch {
			case c >= '0' && c <= '9':
				v = v<<4 | (c - '0')
			case c >= 'A' && c <= 'F':
				v = v<<4 | (c - 'A' + 10)
			case c >= 'a' && c <= 'f':
				v = v<<4 | (c - 'a' + 10)
			}
		}
		out[i] = v
	}
	return out
}

// H_C16_Bip340Vector: the first published BIP-340 test vector, executed concretely through the real code.
func H_C16_Bip340Vector() {
	sk := SecretKey(unhex("0000000000000000000000000000000000000000000000000000000000000003"))
	pk, err := sk.Public()
	vsym.Assert(err == nil && vsym.BytesEq(pk, unhex("F9308A019258C31049344F85F89D5229B531C845836F99B08601F113BCE036F9")), "public key of test vector 0")
	m := make([]byte, 32)
	sig, serr := sk.Sign(constRand{make([]byte, 32)}, m)
	want := unhex("E907831F80848D1069A5371B402410364BDF1C5F8307B0084C55F1CE2DCA821525F66A4A85EA8B71E482A74F382D2CE5EBEEE8FDB2172F477DF4900D310536C0")
	vsym.Assert(serr == nil && vsym.BytesEq(sig, want), "signature of test vector 0 is reproduced")
	vsym.Assert(pk.Verify(sig, m), "test vector 0 verifies")
	vsym.Assert(refVerify(pk, m, sig), "test vector 0 verifies under the independent algorithm")
	vsym.Reach("bip340-vector-checked")
}

// H_C16_InfiniteR: the degenerate signature r = 0^32, s = e*d (so that s*G - e*P is the point at infinity), built for
// a choice of concrete keys, is rejected by the library exactly as BIP-340's "fail if is_infinite(R)" demands. Concrete
// curve (the real decred code runs inside the engine): the affine image of infinity is (0,0), whose Y is even and whose
// x matches r, so only the explicit infinity check stands between this input and acceptance.
func H_C16_InfiniteR() {
	group := curve.Secp256k1{}
	keys := []string{"0000000000000000000000000000000000000000000000000000000000000003", "B7E151628AED2A6ABF7158809CF4F3C762E7160F38B4DA56A784D9045190CFEF",
		"C90FDAA22168C234C4C6628B80DC1CD129024E088A67CC74020BBEA63B14E5C9", "0B432B2677937381AEF05BB02A66ECD012773062CF3FA2549E44F58ED2401710"}
	sk := SecretKey(unhex(keys[vsym.Choose("key", len(keys))]))
	pk, err := sk.Public()
	vsym.Assume(err == nil)
	m := []byte("0123456789abcdef0123456789abcdef")
	d := group.NewScalar()
	vsym.Assume(d.UnmarshalBinary(sk) == nil)
	if !d.ActOnBase().(*curve.Secp256k1Point).HasEvenY() {
		d.Negate()
	}
	r := make([]byte, 32)
	e := group.NewScalar().SetNat(new(saferith.Nat).SetBytes(refTagged("BIP0340/challenge", r, pk, m)))
	sb, _ := e.Mul(d).MarshalBinary()
	sig := append(append([]byte{}, r...), sb...)
	vsym.Assert(!refVerify(pk, m, sig), "BIP-340 algorithm rejects the signature whose R is the point at infinity")
	vsym.Assert(!pk.Verify(Signature(sig), m), "library verification rejects the signature whose R is the point at infinity")
	vsym.Reach("infinite-r-checked")
}

// H_C16_VerifyArbitrary: Verify on arbitrary 64 bytes never panics and rejects wrong lengths (concrete-curve model with
// opaque symbolic values).
func H_C16_VerifyArbitrary() {
	sk := SecretKey(unhex("0000000000000000000000000000000000000000000000000000000000000003"))
	pk, _ := sk.Public()
	sig := Signature(vsym.Bytes("sig", 62, 66))
	ok := pk.Verify(sig, []byte("m"))
	vsym.Assert(vsym.Implies(len(sig) != 64, !ok), "signatures of the wrong length are rejected")
	vsym.Reach("verify-arbitrary-checked")
}
