//go:build verif

package taproot

import (
	"github.com/taurusgroup/multi-party-sig/internal/vsym"
)

type fixedRand struct{ b []byte }

func (f fixedRand) Read(p []byte) (int, error) { return copy(p, f.b), nil }

// H_C11_TaprootNonces: two stand-alone BIP-340 signatures. If they publish the same nonce point R (first 32 bytes),
// then secret key, message AND the auxiliary randomness all coincide: a stuck random source still gives distinct
// nonces for distinct messages/keys, and a working one gives distinct nonces for identical inputs.
func H_C11_TaprootNonces() {
	sk1 := SecretKey(vsym.Bytes("sk1", 32, 32))
	sk2 := sk1
	if vsym.Choose("samekey", 2) == 0 {
		sk2 = SecretKey(vsym.Bytes("sk2", 32, 32))
	}
	ml := vsym.Param("msglen", 3)
	m1 := vsym.Bytes("m1", 0, ml)
	m2 := vsym.Bytes("m2", 0, ml)
	if vsym.Param("longmsg", 0) == 1 { // messages longer than 32 bytes sharing a 32-byte prefix
		prefix := vsym.Bytes("prefix", 32, 32)
		m1 = append(append([]byte{}, prefix...), m1...)
		m2 = append(append([]byte{}, prefix...), m2...)
	}
	a1 := vsym.Bytes("a1", 32, 32)
	a2 := vsym.Bytes("a2", 32, 32)
	s1, err1 := sk1.Sign(fixedRand{a1}, m1)
	s2, err2 := sk2.Sign(fixedRand{a2}, m2)
	vsym.Assume(err1 == nil && err2 == nil)
	same := vsym.And(vsym.BytesEq(sk1, sk2), vsym.And(vsym.BytesEq(m1, m2), vsym.BytesEq(a1, a2)))
	vsym.Assert(vsym.Implies(vsym.BytesEq(s1[:32], s2[:32]), same), "equal nonce point implies equal key, message and randomness")
	vsym.Reach("taproot-nonces-compared")
}

// H_C11_TaprootCounter: with a nil reader the nonce uses a process-wide counter: two successive signatures of the same
// message under the same key publish different nonce points.
func H_C11_TaprootCounter() {
	sk := SecretKey(vsym.Bytes("sk", 32, 32))
	m := vsym.Bytes("m", 0, 2)
	s1, err1 := sk.Sign(nil, m)
	s2, err2 := sk.Sign(nil, m)
	vsym.Assume(err1 == nil && err2 == nil)
	vsym.Assert(vsym.Not(vsym.BytesEq(s1[:32], s2[:32])), "successive signatures use different nonces")
	vsym.Reach("taproot-counter-compared")
}

