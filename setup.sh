#!/bin/sh
# offline build of the gosym engine
set -e
cd "$(dirname "$0")/engine"
export GOFLAGS=-mod=mod GOPROXY=off GOSUMDB=off GOTOOLCHAIN=local
go build -o ../bin/gosym .
